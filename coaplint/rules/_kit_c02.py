"""Small-scope evaluator for the C02 clauses (helper module of rules/c02.py).

The clauses of C02 about TokenManager.request / process_response / dispatch_error are statements about
*behaviour* ("the response is handed to the request filed under (token, remote)", "the entry is retired exactly
when the response is final", "only the requests of the reported remote are failed, each exactly once").  Deciding
them on the shape of the code (which statement stores, which `if` dominates) breaks under every refactoring that
moves the lookup into a helper, replaces try/except KeyError by .get()/membership, builds the key with a
conditional expression, collects stoppers with a comprehension, ...

This module decides them the other way round: the function is run in the checker's OWN evaluator (a plain
tree-walking interpreter over the syntax trees of the analysed program; nothing of the repository is imported,
compiled or executed by Python) on a handful of small *worlds*: the request tables are finite dicts whose keys are
tuples of distinct individuals (tokens, remotes), requests are opaque individuals whose method calls are recorded as
events, the few attributes that matter (Observe option values, is_multicast) carry concrete values.  The rule then
compares what happened (events, final table contents, return value) with what the property demands.  A failing
world is a concrete counterexample of the necessary condition, so a VIOLATION is never a matter of spelling.

The evaluator runs on the sources as written (`raw_program`), not on the engine's canonical form: every call creates
a fresh frame, every lambda / nested def captures the frame it is created in, defaults and functools.partial
arguments are evaluated where the callable is made -- so closure factories, partials, default-argument binding, bound
methods and small callable classes bind per callable, and a lambda / def that refers to a loop or comprehension
variable binds late, exactly as in Python.

Vocabulary: the statement and expression forms below.  Everything else raises AnalysisError (exit 2) -- the
evaluator never guesses.  Values it knows nothing about (results of opaque calls, unset attributes) are *unknown
individuals*: a branch on one is explored both ways (`Explorer`), consistently per fact.
"""

import ast

from ..model import AnalysisError, BUILTIN_EXC
from ..rulekit import is_log_call
from ..pat import chain

NATIVE = (type(None), bool, int, float, str, bytes)


class Obj:
    """An individual.  known=True: a distinct object (never None, never equal to another individual or a
    constant, truthy).  known=False: nothing is known; comparisons/truthiness are explored both ways."""

    def __init__(self, name, known=False, cls=None, parent=None, attr=None, attrs=None, truth=None):
        self.name = name
        self.known = known
        self.cls = cls
        self.parent = parent
        self.attr = attr
        self.attrs = dict(attrs or {})
        self.truth = truth

    def __eq__(self, other):
        return isinstance(other, Obj) and other.name == self.name

    def __hash__(self):
        return hash(self.name)

    def __repr__(self):
        return "<%s>" % self.name


class VList:
    def __init__(self, items=()):
        self.items = list(items)

    def __repr__(self):
        return "list%r" % (self.items,)


class VDict:
    def __init__(self, pairs=(), name=None):
        self.pairs = [[k, v] for k, v in pairs]
        self.name = name

    def __repr__(self):
        return "dict%s{%s}" % (("<%s>" % self.name) if self.name else "", ", ".join("%r: %r" % (k, v) for k, v in self.pairs))


class VView:
    def __init__(self, d, kind):
        self.d = d
        self.kind = kind


class Func:
    def __init__(self, node, module, closure=None, defaults=(), kwdefaults=None, bound=None, qn=None):
        self.node = node
        self.module = module
        self.closure = closure
        self.defaults = list(defaults)
        self.kwdefaults = dict(kwdefaults or {})
        self.bound = bound  # list of leading positional values (self / cls)
        self.qn = qn

    def __repr__(self):
        return "<function %s>" % (getattr(self.node, "name", "<lambda>"))


class Partial:
    def __init__(self, func, args, kwargs):
        self.func = func
        self.args = list(args)
        self.kwargs = dict(kwargs)

    def __repr__(self):
        return "partial(%r, %r)" % (self.func, self.args)


class OpCaller:
    """operator.methodcaller / attrgetter / itemgetter objects."""

    def __init__(self, kind, args, kwargs):
        self.kind = kind
        self.args = list(args)
        self.kwargs = dict(kwargs)

    def __repr__(self):
        return "%s%r" % (self.kind, tuple(self.args))


class BoundBuiltin:
    def __init__(self, recv, name):
        self.recv = recv
        self.name = name

    def __repr__(self):
        return "<method %s of %r>" % (self.name, self.recv)


class NativeMethod:
    def __init__(self, recv, name):
        self.recv = recv
        self.name = name


class Builtin:
    def __init__(self, name):
        self.name = name

    def __repr__(self):
        return "<builtin %s>" % self.name


class ClassRef:
    def __init__(self, qn):
        self.qn = qn

    def __repr__(self):
        return "<class %s>" % self.qn


class ModuleRef:
    def __init__(self, qn):
        self.qn = qn


class Suppress:
    def __init__(self, classes):
        self.classes = classes


class Frame:
    def __init__(self, module, parent=None, fnode=None):
        self.vars = {}
        self.module = module
        self.parent = parent
        self.fnode = fnode


class _Return(Exception):
    def __init__(self, value):
        self.value = value


class _Break(Exception):
    pass


class _Continue(Exception):
    pass


class Raised(Exception):
    """An exception of the analysed program."""

    def __init__(self, exc, node=None):
        self.exc = exc
        self.node = node


class Event:
    def __init__(self, kind, **kw):
        self.kind = kind
        self.__dict__.update(kw)

    def __repr__(self):
        return "%s(%s)" % (self.kind, ", ".join("%s=%r" % (k, v) for k, v in self.__dict__.items() if k not in ("kind", "node")))


_BUILTINS = {"isinstance", "len", "list", "tuple", "dict", "str", "repr", "bool", "enumerate", "zip", "any", "all", "reversed",
             "range", "print", "callable", "sorted", "iter", "id", "hash", "bytes", "int", "getattr", "hasattr", "map", "filter", "sum", "min", "max", "set", "frozenset", "type", "divmod", "abs"}
_EXTERNAL = {"functools.partial": "partial", "contextlib.suppress": "suppress", "itertools.chain": "chain",
             "operator.methodcaller": "methodcaller", "operator.attrgetter": "attrgetter", "operator.itemgetter": "itemgetter",
             "itertools.starmap": "starmap"}
_DICT_METHODS = {"get", "pop", "setdefault", "items", "keys", "values", "update", "clear", "copy", "popitem"}
_LIST_METHODS = {"append", "extend", "insert", "pop", "remove", "clear", "copy", "index", "count", "reverse"}
_NATIVE_METHOD_TYPES = (int, str, bytes, tuple)

_baseline_cache = None


def baseline_functions():
    """Qualified names of the functions of the confirmed tree (the same list the engine's helper expansion uses)."""
    global _baseline_cache
    if _baseline_cache is None:
        import os
        path = os.path.join(os.path.dirname(os.path.dirname(os.path.abspath(__file__))), "baseline_functions.txt")
        try:
            with open(path) as f:
                _baseline_cache = {l.strip() for l in f if l.strip() and not l.startswith("#")}
        except OSError:
            raise AnalysisError("baseline_functions.txt missing")
    return _baseline_cache


def raw_program(prog):
    """The analysed sources AS WRITTEN (same root, same in-memory overrides), without the engine's canonicalisation
    (helper expansion + copy propagation, coaplint/inline.py).

    The small-scope evaluator is an interpreter: it gives every spelling its Python meaning by itself (helpers are
    called, locals are looked up, closures capture frames), so it has no use for a canonical form -- and the
    canonical form is not exact where *binding time* matters: expanding `def failing(request): return lambda:
    request.add_exception(e)` at `[failing(request) for ... in ...]` substitutes the argument into the body of the
    returned lambda, `[lambda: request.add_exception(e) for ...]`, which turns a parameter bound per call into a
    reference to the comprehension variable (every stopper would then act on the last request).  The evaluator
    therefore always runs on the unexpanded trees; each call creates a fresh frame, exactly as in Python."""
    cached = prog.__dict__.get("_c02_raw_program")
    if cached is not None:
        return cached
    import os
    from ..model import Program
    if os.environ.get("COAPLINT_NO_INLINE"):
        raw = prog
    else:
        os.environ["COAPLINT_NO_INLINE"] = "1"
        try:
            raw = Program(prog.root, overrides=prog.overrides)
        finally:
            del os.environ["COAPLINT_NO_INLINE"]
    prog.__dict__["_c02_raw_program"] = raw
    return raw


class Interp:
    def __init__(self, prog, script=(), opaque_call=None, isa=None, max_steps=20000):
        """script: prescribed outcomes of the first undecided facts (Explorer); opaque_call(interp, callee, args, kwargs, node)
        -> value or NotImplemented: the world's model of a call on an individual; isa: {(individual name, class qn): bool}."""
        self.prog = prog
        self.script = list(script)
        self.choices = []
        self.facts = {}
        self.events = []
        self.opaque_call = opaque_call
        self.isa = dict(isa or {})
        self.steps = 0
        self.max_steps = max_steps
        self.depth = 0
        self.counter = 0
        self.self_obj = None
        self.blind = []  # calls of / on values the world does not model

    # -- nondeterminism -------------------------------------------------------------------
    def decide(self, key):
        if key in self.facts:
            return self.facts[key]
        i = len(self.choices)
        v = self.script[i] if i < len(self.script) else True
        self.choices.append(v)
        self.facts[key] = v
        return v

    def fresh(self, label, **kw):
        self.counter += 1
        return Obj("%s#%d" % (label, self.counter), **kw)

    def refuse(self, what, node=None):
        raise AnalysisError("small-scope evaluator: %s%s" % (what, (" at `%s`" % " ".join(ast.unparse(node).split())[:80]) if node is not None else ""))

    # -- value predicates ------------------------------------------------------------------
    def veq(self, a, b):
        if a is b:
            return True
        if isinstance(a, tuple) and isinstance(b, tuple):
            return len(a) == len(b) and all(self.veq(x, y) for x, y in zip(a, b))
        if isinstance(a, NATIVE) and isinstance(b, NATIVE):
            if a is None or b is None:
                return a is b
            return a == b
        if isinstance(a, Obj) and isinstance(b, Obj):
            if a.name == b.name:
                return True
            if a.known and b.known:
                return False
            return self.decide("eq:" + "|".join(sorted([a.name, b.name])))
        for x, y in ((a, b), (b, a)):
            if isinstance(x, Obj):
                if x.known:
                    return False
                return self.decide("eq:%s|%r" % (x.name, y))
        if isinstance(a, VList) and isinstance(b, VList):
            return len(a.items) == len(b.items) and all(self.veq(x, y) for x, y in zip(a.items, b.items))
        if isinstance(a, ClassRef) and isinstance(b, ClassRef):
            return a.qn == b.qn
        return False

    def truth(self, v):
        if isinstance(v, NATIVE):
            return bool(v)
        if isinstance(v, tuple):
            return len(v) > 0
        if isinstance(v, VList):
            return len(v.items) > 0
        if isinstance(v, VDict):
            return len(v.pairs) > 0
        if isinstance(v, VView):
            return len(v.d.pairs) > 0
        if isinstance(v, Obj):
            if v.truth is not None:
                return v.truth
            if v.known:
                return True
            return self.decide("truth:" + v.name)
        return True

    def is_instance(self, v, c, node=None):
        if isinstance(c, tuple):
            return any(self.is_instance(v, x, node) for x in c)
        if isinstance(c, Builtin):
            table = {"tuple": tuple, "list": VList, "dict": VDict, "str": str, "bytes": bytes, "int": int, "bool": bool}
            if c.name in table:
                if isinstance(v, Obj) and not v.known and v.cls is None:
                    return self.decide("isa:%s|%s" % (v.name, c.name))
                return isinstance(v, table[c.name])
        if not isinstance(c, ClassRef):
            self.refuse("isinstance against %r" % (c,), node)
        if isinstance(v, Obj):
            if (v.name, c.qn) in self.isa:
                return self.isa[(v.name, c.qn)]
            if v.cls is not None:
                return self.prog.is_subclass(v.cls, c.qn)
            # consistent with what is already known about subclasses / superclasses
            for (n, q), val in list(self.isa.items()):
                if n == v.name and val and self.prog.is_subclass(q, c.qn):
                    return True
                if n == v.name and not val and self.prog.is_subclass(c.qn, q):
                    return False
            r = self.decide("isa:%s|%s" % (v.name, c.qn))
            self.isa[(v.name, c.qn)] = r
            return r
        return False

    # -- dict model ------------------------------------------------------------------------------
    def d_find(self, d, key):
        for i, (k, _v) in enumerate(d.pairs):
            if self.veq(k, key):
                return i
        return -1

    def d_set(self, d, key, value, node=None):
        i = self.d_find(d, key)
        if i >= 0:
            d.pairs[i][1] = value
        else:
            d.pairs.append([key, value])
        self.events.append(Event("dset", d=d.name, key=key, value=value, node=node))

    def d_del(self, d, key, node=None):
        i = self.d_find(d, key)
        if i < 0:
            raise Raised(self.new_exc("KeyError"), node)
        v = d.pairs.pop(i)[1]
        self.events.append(Event("ddel", d=d.name, key=key, node=node))
        return v

    def new_exc(self, clsname):
        return self.fresh("exc:" + clsname, known=True, cls=clsname)

    # -- names -------------------------------------------------------------------------------------
    def lookup(self, name, frame, node=None):
        f = frame
        while f is not None:
            if name in f.vars:
                return f.vars[name]
            f = f.parent
        m = frame.module
        qn = m.name + "." + name
        if qn in self.prog.funcs:
            fi = self.prog.funcs[qn]
            return Func(fi.node, m, qn=qn)
        if qn in self.prog.classes:
            return ClassRef(qn)
        if name in m.imports:
            return self.global_ref(self.prog.canonical(m.imports[name]))
        if self.prog._module_defines(m, name):
            return self.module_const(m, name)
        if name in _BUILTINS:
            return Builtin(name)
        if name in BUILTIN_EXC:
            return ClassRef(name)
        self.refuse("unbound name %s" % name, node)

    def module_const(self, m, name):
        found = None
        for st in m.tree.body:
            if isinstance(st, ast.Assign) and any(isinstance(t, ast.Name) and t.id == name for t in st.targets):
                found = st.value
            elif isinstance(st, ast.AnnAssign) and isinstance(st.target, ast.Name) and st.target.id == name and st.value is not None:
                found = st.value
        if found is None:
            self.refuse("module constant %s.%s" % (m.name, name))
        return self.ev(found, Frame(m))

    def global_ref(self, qn):
        if qn in self.prog.classes:
            return ClassRef(qn)
        if qn in self.prog.funcs:
            fi = self.prog.funcs[qn]
            return Func(fi.node, fi.module, qn=qn)
        if qn in self.prog.modules:
            return ModuleRef(qn)
        if qn in _EXTERNAL:
            return Builtin(_EXTERNAL[qn])
        if qn in BUILTIN_EXC:
            return ClassRef(qn)
        head = qn.split(".")[0]
        if head == "aiocoap":
            # module-level constant of a package module
            mod, _, name = qn.rpartition(".")
            if mod in self.prog.modules and self.prog._module_defines(self.prog.modules[mod], name):
                return self.module_const(self.prog.modules[mod], name)
            self.refuse("cannot resolve %s" % qn)
        if "." not in qn:
            return ModuleRef(qn)  # an external module (functools, ...)
        return Obj("ext:" + qn, known=True)  # something of an external module: an opaque individual

    # -- attribute access ----------------------------------------------------------------------------
    def getattr(self, v, name, node=None):
        if isinstance(v, Obj):
            if name in v.attrs:
                return v.attrs[name]
            if v.cls is not None and v.cls in self.prog.classes:
                fi = self.prog.lookup_method(v.cls, name)
                if fi is not None and fi.qn not in baseline_functions():
                    if {chain(d) for d in fi.node.decorator_list} <= {"property", "functools.cached_property", "cached_property"} and fi.node.decorator_list:
                        # a read-only view somebody introduced (`@property def _table(self): return self.outgoing_requests`)
                        return self.call_func(Func(fi.node, fi.module, bound=[v], qn=fi.qn), [], {}, node)
                    return self.bind_method(fi, v)
                if fi is None:
                    e, ci = self.prog.class_attr(v.cls, name)
                    if e is not None:
                        return self.ev(e, Frame(ci.module))
            if v.cls is None and v.known:
                fi = self.unique_new_method(name)
                if fi is not None:
                    return self.bind_method(fi, v)
            child = Obj(v.name + "." + name, known=False, parent=v, attr=name)
            v.attrs[name] = child
            return child
        if isinstance(v, VDict):
            if name in _DICT_METHODS:
                return BoundBuiltin(v, name)
        if isinstance(v, VList):
            if name in _LIST_METHODS:
                return BoundBuiltin(v, name)
        if isinstance(v, ModuleRef):
            qn = self.prog.canonical(v.qn + "." + name)
            if v.qn + "." + name in _EXTERNAL:
                return Builtin(_EXTERNAL[v.qn + "." + name])
            return self.global_ref(qn)
        if isinstance(v, ClassRef):
            if v.qn in self.prog.classes:
                fi = self.prog.lookup_method(v.qn, name)
                if fi is not None:
                    return self.bind_method(fi, None, cls=v)
                e, ci = self.prog.class_attr(v.qn, name)
                if e is not None:
                    return self.ev(e, Frame(ci.module))
            self.refuse("attribute %s of class %s" % (name, v.qn), node)
        if isinstance(v, Builtin) and (v.name, name) == ("chain", "from_iterable"):
            return Builtin("chain_from_iterable")
        if isinstance(v, _NATIVE_METHOD_TYPES) and not isinstance(v, bool) and hasattr(type(v), name) and not name.startswith("__"):
            return NativeMethod(v, name)
        self.refuse("attribute %s of %r" % (name, v), node)

    def unique_new_method(self, name):
        """A method that is not part of the confirmed tree (a helper somebody added to Pipe, Message, ...) called on
        an individual of the world whose class the world does not fix: when exactly one class of the package
        defines a method of that name and no function of the confirmed tree bears the name, the call can only mean
        that helper, and it is evaluated on the individual (same resolution as the engine's helper expansion)."""
        cache = self.prog.__dict__.setdefault("_c02_unique_new", {})
        if name not in cache:
            base = baseline_functions()
            cands = [fi for fi in self.prog.funcs.values() if fi.cls is not None and fi.name == name and fi.qn not in base]
            taken = any(q.rsplit(".", 1)[-1] == name for q in base)
            cache[name] = cands[0] if len(cands) == 1 and not taken and not name.startswith("__") else None
        return cache[name]

    _PLAIN_DUNDERS = {"__init__", "__call__", "__repr__", "__str__"}

    def is_new_plain_class(self, qn):
        ci = self.prog.classes.get(qn)
        if ci is None or self.prog.is_subclass(qn, "BaseException"):
            return False
        cache = self.prog.__dict__.setdefault("_c02_plain_class", {})
        if qn not in cache:
            base = baseline_functions()
            node = ci.node
            ok = not node.decorator_list and not node.keywords and all(isinstance(b, ast.Name) and b.id == "object" for b in node.bases)
            ok = ok and not any(q.startswith(qn + ".") for q in base)
            for st in node.body:
                if isinstance(st, ast.FunctionDef):
                    if st.decorator_list or (st.name.startswith("__") and st.name.endswith("__") and st.name not in self._PLAIN_DUNDERS):
                        ok = False
                elif isinstance(st, (ast.Assign, ast.AnnAssign)):
                    names = [t.id for t in (st.targets if isinstance(st, ast.Assign) else [st.target]) if isinstance(t, ast.Name)]
                    if any(n.startswith("__") and n != "__slots__" for n in names):
                        ok = False
                elif not (isinstance(st, ast.Pass) or (isinstance(st, ast.Expr) and isinstance(st.value, ast.Constant))):
                    ok = False
            cache[qn] = ok
        return cache[qn]

    def bind_method(self, fi, recv, cls=None):
        decos = {chain(d) for d in fi.node.decorator_list}
        if "staticmethod" in decos:
            return Func(fi.node, fi.module, qn=fi.qn)
        if "classmethod" in decos:
            return Func(fi.node, fi.module, bound=[cls if cls is not None else ClassRef(recv.cls)], qn=fi.qn)
        if decos - {None}:
            self.refuse("decorated method %s" % fi.qn)
        if recv is None:
            return Func(fi.node, fi.module, qn=fi.qn)
        return Func(fi.node, fi.module, bound=[recv], qn=fi.qn)

    def setattr(self, v, name, value, node=None):
        if isinstance(v, Obj):
            v.attrs[name] = value
            self.events.append(Event("setattr", obj=v, attr=name, value=value, node=node))
            return
        self.refuse("attribute store on %r" % (v,), node)

    # -- iteration --------------------------------------------------------------------------------------
    def iterate(self, v, node=None):
        """Generator over the elements of v, with the semantics of a live iteration."""
        if isinstance(v, tuple):
            for x in v:
                yield x
        elif isinstance(v, VList):
            i = 0
            while i < len(v.items):
                yield v.items[i]
                i += 1
        elif isinstance(v, (VDict, VView)):
            d = v if isinstance(v, VDict) else v.d
            kind = "keys" if isinstance(v, VDict) else v.kind
            n = len(d.pairs)
            i = 0
            while i < len(d.pairs):
                k, val = d.pairs[i]
                yield k if kind == "keys" else val if kind == "values" else (k, val)
                if len(d.pairs) != n:
                    raise Raised(self.new_exc("RuntimeError"), node)
                i += 1
        elif isinstance(v, (str, bytes)):
            self.refuse("iteration over a string", node)
        else:
            self.refuse("iteration over %r" % (v,), node)

    def tolist(self, v, node=None):
        return list(self.iterate(v, node))

    # -- expressions -----------------------------------------------------------------------------------------
    def ev(self, e, fr):
        m = getattr(self, "ev_" + type(e).__name__, None)
        if m is None:
            self.refuse("expression form %s" % type(e).__name__, e)
        return m(e, fr)

    def ev_Constant(self, e, fr):
        return e.value

    def ev_Name(self, e, fr):
        return self.lookup(e.id, fr, e)

    def ev_Attribute(self, e, fr):
        return self.getattr(self.ev(e.value, fr), e.attr, e)

    def ev_Tuple(self, e, fr):
        return tuple(self.seq_elts(e.elts, fr))

    def ev_List(self, e, fr):
        return VList(self.seq_elts(e.elts, fr))

    def seq_elts(self, elts, fr):
        out = []
        for x in elts:
            if isinstance(x, ast.Starred):
                out.extend(self.tolist(self.ev(x.value, fr), x))
            else:
                out.append(self.ev(x, fr))
        return out

    def ev_Dict(self, e, fr):
        d = VDict()
        for k, v in zip(e.keys, e.values):
            if k is None:
                src = self.ev(v, fr)
                if not isinstance(src, VDict):
                    self.refuse("** of a non-dict", e)
                for kk, vv in src.pairs:
                    self.d_set(d, kk, vv)
            else:
                kk = self.ev(k, fr)
                self.d_set(d, kk, self.ev(v, fr))
        return d

    def ev_JoinedStr(self, e, fr):
        return self.fresh("str", known=True)

    def ev_Lambda(self, e, fr):
        return self.make_func(e, fr)

    def make_func(self, node, fr):
        a = node.args
        defaults = [self.ev(d, fr) for d in a.defaults]
        kwdefaults = {arg.arg: self.ev(d, fr) for arg, d in zip(a.kwonlyargs, a.kw_defaults) if d is not None}
        return Func(node, fr.module, closure=fr, defaults=defaults, kwdefaults=kwdefaults)

    def ev_IfExp(self, e, fr):
        return self.ev(e.body if self.truth(self.ev(e.test, fr)) else e.orelse, fr)

    def ev_BoolOp(self, e, fr):
        v = None
        for x in e.values:
            v = self.ev(x, fr)
            t = self.truth(v)
            if isinstance(e.op, ast.And) and not t:
                return v
            if isinstance(e.op, ast.Or) and t:
                return v
        return v

    def ev_UnaryOp(self, e, fr):
        v = self.ev(e.operand, fr)
        if isinstance(e.op, ast.Not):
            return not self.truth(v)
        if isinstance(v, (int, float)):
            if isinstance(e.op, ast.USub):
                return -v
            if isinstance(e.op, ast.UAdd):
                return +v
            if isinstance(e.op, ast.Invert):
                return ~v
        self.refuse("unary operator on %r" % (v,), e)

    def ev_NamedExpr(self, e, fr):
        v = self.ev(e.value, fr)
        while getattr(fr, "comp", False):  # a walrus inside a comprehension binds in the enclosing function
            fr = fr.parent
        self.bind_name(e.target.id, v, fr)
        return v

    def ev_BinOp(self, e, fr):
        l = self.ev(e.left, fr)
        r = self.ev(e.right, fr)
        if isinstance(e.op, ast.Add):
            if isinstance(l, VList) and isinstance(r, VList):
                return VList(l.items + r.items)
            if isinstance(l, tuple) and isinstance(r, tuple):
                return l + r
        if isinstance(e.op, ast.Mod) and isinstance(l, str):
            return self.fresh("str", known=True)
        if isinstance(l, NATIVE) and isinstance(r, NATIVE) and l is not None and r is not None:
            import operator
            ops = {ast.Add: operator.add, ast.Sub: operator.sub, ast.Mult: operator.mul, ast.FloorDiv: operator.floordiv, ast.Mod: operator.mod,
                   ast.Pow: operator.pow, ast.LShift: operator.lshift, ast.RShift: operator.rshift, ast.BitAnd: operator.and_, ast.BitOr: operator.or_,
                   ast.BitXor: operator.xor, ast.Div: operator.truediv}
            if type(e.op) in ops:
                if isinstance(e.op, ast.Pow) and isinstance(r, int) and abs(r) > 4096:
                    self.refuse("power too large", e)
                try:
                    return ops[type(e.op)](l, r)
                except Exception:
                    self.refuse("arithmetic fails", e)
        self.refuse("binary operator on %r and %r" % (l, r), e)

    def ev_Compare(self, e, fr):
        left = self.ev(e.left, fr)
        for op, c in zip(e.ops, e.comparators):
            right = self.ev(c, fr)
            if not self.compare(op, left, right, e):
                return False
            left = right
        return True

    def compare(self, op, l, r, node=None):
        if isinstance(op, (ast.Eq, ast.Is)):
            return self.veq(l, r)
        if isinstance(op, (ast.NotEq, ast.IsNot)):
            return not self.veq(l, r)
        if isinstance(op, (ast.In, ast.NotIn)):
            res = self.contains(r, l, node)
            return res if isinstance(op, ast.In) else not res
        if isinstance(l, (int, float, str, bytes)) and isinstance(r, (int, float, str, bytes)):
            try:
                return {ast.Lt: l < r, ast.LtE: l <= r, ast.Gt: l > r, ast.GtE: l >= r}[type(op)]
            except Exception:
                pass
        self.refuse("ordering comparison of %r and %r" % (l, r), node)

    def contains(self, container, x, node=None):
        if isinstance(container, tuple):
            return any(self.veq(x, y) for y in container)
        if isinstance(container, VList):
            return any(self.veq(x, y) for y in container.items)
        if isinstance(container, VDict):
            return self.d_find(container, x) >= 0
        if isinstance(container, VView):
            if container.kind == "keys":
                return self.d_find(container.d, x) >= 0
            return any(self.veq(x, y) for y in self.iterate(container))
        if isinstance(container, (str, bytes)) and isinstance(x, (str, bytes)):
            return x in container
        if isinstance(container, Obj) and not container.known:
            return self.decide("in:%r|%s" % (x, container.name))
        self.refuse("membership in %r" % (container,), node)

    def ev_Subscript(self, e, fr):
        v = self.ev(e.value, fr)
        if isinstance(e.slice, ast.Slice):
            if isinstance(v, (tuple, VList, str, bytes)):
                lo = self.ev(e.slice.lower, fr) if e.slice.lower is not None else None
                hi = self.ev(e.slice.upper, fr) if e.slice.upper is not None else None
                st = self.ev(e.slice.step, fr) if e.slice.step is not None else None
                if all(x is None or (isinstance(x, int) and not isinstance(x, bool)) for x in (lo, hi, st)):
                    if isinstance(v, VList):
                        return VList(v.items[lo:hi:st])
                    return v[lo:hi:st]
            self.refuse("slice of %r" % (v,), e)
        k = self.ev(e.slice, fr)
        return self.subscript(v, k, e)

    def subscript(self, v, k, node=None):
        if isinstance(v, VDict):
            i = self.d_find(v, k)
            if i < 0:
                raise Raised(self.new_exc("KeyError"), node)
            return v.pairs[i][1]
        if isinstance(v, (tuple, VList)):
            items = v if isinstance(v, tuple) else v.items
            if isinstance(k, int) and not isinstance(k, bool):
                if -len(items) <= k < len(items):
                    return items[k]
                raise Raised(self.new_exc("IndexError"), node)
        if isinstance(v, (str, bytes)) and isinstance(k, int):
            try:
                return v[k]
            except IndexError:
                raise Raised(self.new_exc("IndexError"), node)
        self.refuse("subscript of %r" % (v,), node)

    def comp_frames(self, gens, fr, body):
        """Run body(frame) for every binding of the comprehension's generators (one shared frame, as in Python)."""
        cf = Frame(fr.module, parent=fr)
        cf.comp = True

        def rec(i):
            if i == len(gens):
                body(cf)
                return
            g = gens[i]
            if g.is_async:
                self.refuse("async comprehension")
            it = self.ev(g.iter, fr if i == 0 else cf)
            for x in self.iterate(it, g.iter):
                self.assign(g.target, x, cf)
                if all(self.truth(self.ev(c, cf)) for c in g.ifs):
                    rec(i + 1)
        rec(0)

    def ev_ListComp(self, e, fr):
        out = VList()
        self.comp_frames(e.generators, fr, lambda cf: out.items.append(self.ev(e.elt, cf)))
        return out

    ev_GeneratorExp = ev_ListComp  # consumed eagerly: the bodies evaluated here have no effects that depend on laziness

    def ev_DictComp(self, e, fr):
        out = VDict()

        def body(cf):
            k = self.ev(e.key, cf)
            self.d_set(out, k, self.ev(e.value, cf))
        self.comp_frames(e.generators, fr, body)
        return out

    def ev_Call(self, e, fr):
        if is_log_call(e):
            return None
        f = self.ev(e.func, fr)
        args = []
        for a in e.args:
            if isinstance(a, ast.Starred):
                args.extend(self.tolist(self.ev(a.value, fr), a))
            else:
                args.append(self.ev(a, fr))
        kwargs = {}
        for kw in e.keywords:
            if kw.arg is None:
                src = self.ev(kw.value, fr)
                if not isinstance(src, VDict) or not all(isinstance(k, str) for k, _ in src.pairs):
                    self.refuse("** of a non-dict", e)
                kwargs.update({k: v for k, v in src.pairs})
            else:
                kwargs[kw.arg] = self.ev(kw.value, fr)
        return self.call(f, args, kwargs, e)

    # -- calls ------------------------------------------------------------------------------------------------------
    def call(self, f, args, kwargs=None, node=None):
        kwargs = kwargs or {}
        if isinstance(f, Func):
            return self.call_func(f, args, kwargs, node)
        if isinstance(f, Partial):
            kw = dict(f.kwargs)
            kw.update(kwargs)
            return self.call(f.func, f.args + list(args), kw, node)
        if isinstance(f, BoundBuiltin):
            return self.call_container(f, args, kwargs, node)
        if isinstance(f, OpCaller):
            if len(args) != 1 or kwargs:
                raise Raised(self.new_exc("TypeError"), node)
            if f.kind == "methodcaller":
                return self.call(self.getattr(args[0], f.args[0], node), f.args[1:], f.kwargs, node)
            if f.kind == "attrgetter":
                def dotted(path):
                    v = args[0]
                    for part in path.split("."):
                        v = self.getattr(v, part, node)
                    return v
                vals = [dotted(a) for a in f.args]
            else:
                vals = [self.subscript(args[0], a, node) for a in f.args]
            return vals[0] if len(vals) == 1 else tuple(vals)
        if isinstance(f, NativeMethod):
            if all(isinstance(a, NATIVE) or (isinstance(a, tuple) and all(isinstance(x, NATIVE) for x in a)) for a in list(args) + list(kwargs.values())):
                try:
                    return getattr(f.recv, f.name)(*args, **kwargs)
                except Exception:
                    self.refuse("native method %s fails" % f.name, node)
            if isinstance(f.recv, (str, bytes)) and f.name in ("format", "join", "format_map"):
                return self.fresh("str", known=True)  # text built from individuals: an opaque string
            self.refuse("native method %s on non-constant arguments" % f.name, node)
        if isinstance(f, Builtin):
            return self.call_builtin(f.name, args, kwargs, node)
        if isinstance(f, ClassRef) and self.is_new_plain_class(f.qn):
            # a class that is not part of the confirmed tree and has nothing but plain methods (a callable object
            # instead of a closure, a small holder): instances are individuals with identity semantics, __init__ and
            # the methods are evaluated like any other helper
            o = self.fresh("new:" + f.qn, known=True, cls=f.qn)
            o.evaluated = True
            self.events.append(Event("new", cls=f.qn, obj=o, args=list(args), kwargs=kwargs, node=node, evaluated=True))
            init = self.prog.lookup_method(f.qn, "__init__")
            if init is not None:
                self.call_func(Func(init.node, init.module, bound=[o], qn=init.qn), list(args), kwargs, node)
            elif args or kwargs:
                raise Raised(self.new_exc("TypeError"), node)
            return o
        if isinstance(f, Obj) and getattr(f, "evaluated", False):
            fi = self.prog.lookup_method(f.cls, "__call__")
            if fi is None:
                raise Raised(self.new_exc("TypeError"), node)
            return self.call_func(Func(fi.node, fi.module, bound=[f], qn=fi.qn), list(args), kwargs, node)
        if isinstance(f, ClassRef):
            o = self.fresh("new:" + f.qn, known=True, cls=f.qn)
            o.attrs["args"] = tuple(args)
            self.events.append(Event("new", cls=f.qn, obj=o, args=list(args), kwargs=kwargs, node=node))
            return o
        if isinstance(f, Obj):
            if f.attr == "with_traceback" and f.parent is not None and f.parent.cls is not None and len(args) == 1:
                return f.parent  # BaseException.with_traceback returns the exception itself
            r = NotImplemented
            ev = Event("call", callee=f, args=list(args), kwargs=dict(kwargs), node=node, result=None)
            self.events.append(ev)
            if self.opaque_call is not None:
                r = self.opaque_call(self, f, args, kwargs, node)
            if r is NotImplemented:
                root = f
                while root.parent is not None:
                    root = root.parent
                if not root.known:
                    # something the world knows nothing about (the result of an opaque call, ...) is *called*: whatever
                    # that does is not modelled, so a refutation obtained on this run is not a counterexample
                    self.blind.append(f.name)
                r = self.fresh("result of %s" % f.name)
            ev.result = r
            return r
        self.refuse("call of %r" % (f,), node)

    def call_func(self, f, args, kwargs, node):
        fn = f.node
        if isinstance(fn, ast.AsyncFunctionDef):
            self.refuse("call of coroutine function %s" % fn.name, node)
        if not isinstance(fn, ast.Lambda):
            for n in ast.walk(fn):
                if isinstance(n, (ast.Yield, ast.YieldFrom, ast.Await)):
                    self.refuse("call of generator function %s" % fn.name, node)
        self.depth += 1
        if self.depth > 40:
            self.refuse("call depth", node)
        try:
            fr = Frame(f.module, parent=f.closure, fnode=fn)
            if f.closure is None and not f.defaults and not f.kwdefaults and (fn.args.defaults or any(d is not None for d in fn.args.kw_defaults)):
                mf = Frame(f.module)
                f.defaults = [self.ev(d, mf) for d in fn.args.defaults]
                f.kwdefaults = {a.arg: self.ev(d, mf) for a, d in zip(fn.args.kwonlyargs, fn.args.kw_defaults) if d is not None}
            self.bind_args(f, list(f.bound or []) + list(args), kwargs, fr, node)
            if isinstance(fn, ast.Lambda):
                return self.ev(fn.body, fr)
            try:
                self.exec_block(fn.body, fr)
            except _Return as r:
                return r.value
            return None
        finally:
            self.depth -= 1

    def bind_args(self, f, args, kwargs, fr, node):
        a = f.node.args
        pos = a.posonlyargs + a.args
        kwargs = dict(kwargs)
        nd = len(f.defaults)
        for i, p in enumerate(pos):
            if i < len(args):
                fr.vars[p.arg] = args[i]
            elif p.arg in kwargs and p not in a.posonlyargs:
                fr.vars[p.arg] = kwargs.pop(p.arg)
            elif i >= len(pos) - nd:
                fr.vars[p.arg] = f.defaults[i - (len(pos) - nd)]
            else:
                raise Raised(self.new_exc("TypeError"), node)
        if len(args) > len(pos):
            if a.vararg is None:
                raise Raised(self.new_exc("TypeError"), node)
            fr.vars[a.vararg.arg] = tuple(args[len(pos):])
        elif a.vararg is not None:
            fr.vars[a.vararg.arg] = ()
        for p in a.kwonlyargs:
            if p.arg in kwargs:
                fr.vars[p.arg] = kwargs.pop(p.arg)
            elif p.arg in f.kwdefaults:
                fr.vars[p.arg] = f.kwdefaults[p.arg]
            else:
                raise Raised(self.new_exc("TypeError"), node)
        if kwargs:
            if a.kwarg is None:
                raise Raised(self.new_exc("TypeError"), node)
            fr.vars[a.kwarg.arg] = VDict(kwargs.items())
        elif a.kwarg is not None:
            fr.vars[a.kwarg.arg] = VDict()

    def call_container(self, f, args, kwargs, node):
        r, name = f.recv, f.name
        if kwargs and not (isinstance(r, VDict) and name == "update"):
            self.refuse("keyword arguments to %s" % name, node)
        n = len(args)
        if isinstance(r, VDict):
            if name == "get" and n in (1, 2):
                i = self.d_find(r, args[0])
                return r.pairs[i][1] if i >= 0 else (args[1] if n == 2 else None)
            if name == "pop" and n in (1, 2):
                i = self.d_find(r, args[0])
                if i < 0:
                    if n == 2:
                        return args[1]
                    raise Raised(self.new_exc("KeyError"), node)
                return self.d_del(r, args[0], node)
            if name == "setdefault" and n in (1, 2):
                i = self.d_find(r, args[0])
                if i >= 0:
                    return r.pairs[i][1]
                v = args[1] if n == 2 else None
                self.d_set(r, args[0], v, node)
                return v
            if name in ("items", "keys", "values") and n == 0:
                return VView(r, name)
            if name == "update":
                for src in args:
                    if isinstance(src, VDict):
                        for k, v in list(src.pairs):
                            self.d_set(r, k, v, node)
                    else:
                        for kv in self.tolist(src, node):
                            if not (isinstance(kv, tuple) and len(kv) == 2):
                                self.refuse("dict.update with a non-pair", node)
                            self.d_set(r, kv[0], kv[1], node)
                for k, v in kwargs.items():
                    self.d_set(r, k, v, node)
                return None
            if name == "clear" and n == 0:
                for k, _v in list(r.pairs):
                    self.d_del(r, k, node)
                return None
            if name == "copy" and n == 0:
                return VDict(r.pairs)
            if name == "popitem" and n == 0:
                if not r.pairs:
                    raise Raised(self.new_exc("KeyError"), node)
                k, v = r.pairs[-1]
                self.d_del(r, k, node)
                return (k, v)
        if isinstance(r, VList):
            if name == "append" and n == 1:
                r.items.append(args[0])
                return None
            if name == "extend" and n == 1:
                r.items.extend(self.tolist(args[0], node))
                return None
            if name == "insert" and n == 2 and isinstance(args[0], int):
                r.items.insert(args[0], args[1])
                return None
            if name == "pop" and n <= 1:
                if not r.items:
                    raise Raised(self.new_exc("IndexError"), node)
                return r.items.pop(*[a for a in args if isinstance(a, int)])
            if name == "remove" and n == 1:
                for i, x in enumerate(r.items):
                    if self.veq(x, args[0]):
                        del r.items[i]
                        return None
                raise Raised(self.new_exc("ValueError"), node)
            if name == "clear" and n == 0:
                del r.items[:]
                return None
            if name == "copy" and n == 0:
                return VList(r.items)
            if name == "reverse" and n == 0:
                r.items.reverse()
                return None
            if name == "count" and n == 1:
                return sum(1 for x in r.items if self.veq(x, args[0]))
            if name == "index" and n == 1:
                for i, x in enumerate(r.items):
                    if self.veq(x, args[0]):
                        return i
                raise Raised(self.new_exc("ValueError"), node)
        self.refuse("container method %s/%d" % (name, n), node)

    def call_builtin(self, name, args, kwargs, node):
        n = len(args)
        if name == "partial" and n >= 1:
            return Partial(args[0], args[1:], kwargs)
        if name == "methodcaller" and n >= 1 and isinstance(args[0], str):
            return OpCaller(name, args, kwargs)
        if name in ("attrgetter", "itemgetter") and n >= 1 and not kwargs and (name == "itemgetter" or all(isinstance(a, str) for a in args)):
            return OpCaller(name, args, kwargs)
        if kwargs and name not in ("print", "dict"):
            self.refuse("keyword arguments to %s" % name, node)
        if name == "isinstance" and n == 2:
            return self.is_instance(args[0], args[1], node)
        if name == "len" and n == 1:
            v = args[0]
            if isinstance(v, (tuple, str, bytes)):
                return len(v)
            if isinstance(v, VList):
                return len(v.items)
            if isinstance(v, VDict):
                return len(v.pairs)
            if isinstance(v, VView):
                return len(v.d.pairs)
        if name == "list":
            return VList(self.tolist(args[0], node) if n else [])
        if name == "tuple":
            return tuple(self.tolist(args[0], node) if n else [])
        if name == "dict":
            d = VDict()
            if n == 1:
                self.call_container(BoundBuiltin(d, "update"), [args[0]], {}, node)
            for k, v in kwargs.items():
                self.d_set(d, k, v)
            return d
        if name in ("str", "repr") and n == 1:
            if isinstance(args[0], NATIVE):
                return str(args[0]) if name == "str" else repr(args[0])
            return self.fresh("str", known=True)
        if name == "bool" and n == 1:
            return self.truth(args[0])
        if name == "enumerate" and n in (1, 2):
            start = args[1] if n == 2 else 0
            return VList((i + start, x) for i, x in enumerate(self.tolist(args[0], node)))
        if name == "zip":
            return VList(tuple(t) for t in zip(*[self.tolist(a, node) for a in args]))
        if name == "chain":
            out = []
            for a in args:
                out.extend(self.tolist(a, node))
            return VList(out)
        if name == "chain_from_iterable" and n == 1:
            out = []
            for a in self.tolist(args[0], node):
                out.extend(self.tolist(a, node))
            return VList(out)
        if name == "starmap" and n == 2:
            return VList(self.call(args[0], self.tolist(x, node), {}, node) for x in self.tolist(args[1], node))
        if name == "any" and n == 1:
            return any(self.truth(x) for x in self.tolist(args[0], node))
        if name == "all" and n == 1:
            return all(self.truth(x) for x in self.tolist(args[0], node))
        if name == "reversed" and n == 1:
            return VList(reversed(self.tolist(args[0], node)))
        if name == "iter" and n == 1:
            return VList(self.tolist(args[0], node))
        if name == "range" and all(isinstance(a, int) for a in args) and 1 <= n <= 3:
            r = range(*args)
            if len(r) > 1000:
                self.refuse("range too long", node)
            return tuple(r)
        if name == "print":
            return None
        if name == "callable" and n == 1:
            if isinstance(args[0], (Func, Partial, BoundBuiltin, Builtin, ClassRef, NativeMethod, OpCaller)):
                return True
            if isinstance(args[0], NATIVE) or isinstance(args[0], (tuple, VList, VDict)):
                return False
        if name == "map" and n == 2:
            return VList(self.call(args[0], [x], {}, node) for x in self.tolist(args[1], node))
        if name == "filter" and n == 2:
            if args[0] is None:
                return VList(x for x in self.tolist(args[1], node) if self.truth(x))
            return VList(x for x in self.tolist(args[1], node) if self.truth(self.call(args[0], [x], {}, node)))
        if name == "getattr" and n in (2, 3) and isinstance(args[1], str):
            if n == 3 and isinstance(args[0], Obj) and args[1] not in args[0].attrs:
                self.refuse("getattr with default on an individual", node)
            return self.getattr(args[0], args[1], node)
        if name in ("min", "max", "sum", "sorted", "divmod", "abs", "int", "bytes", "hash", "id"):
            import builtins
            flat = [self.tolist(a, node) if isinstance(a, (VList, tuple)) else a for a in args]
            if all(isinstance(a, NATIVE) or (isinstance(a, list) and all(isinstance(x, NATIVE) for x in a)) for a in flat) and name not in ("hash", "id"):
                try:
                    r = getattr(builtins, name)(*flat)
                except Exception:
                    self.refuse("builtin %s fails" % name, node)
                return VList(r) if isinstance(r, list) else r
        if name == "suppress":
            return Suppress(tuple(args))
        if name == "type" and n == 1 and isinstance(args[0], Obj):
            if args[0].cls is not None:
                return ClassRef(args[0].cls)
            return self.getattr(args[0], "__class__", node)
        self.refuse("builtin %s/%d" % (name, n), node)

    # -- statements ---------------------------------------------------------------------------------------------
    def exec_block(self, body, fr):
        for st in body:
            self.exec(st, fr)

    def exec(self, st, fr):
        self.steps += 1
        if self.steps > self.max_steps:
            self.refuse("step limit exceeded")
        m = getattr(self, "ex_" + type(st).__name__, None)
        if m is None:
            self.refuse("statement form %s" % type(st).__name__, st)
        m(st, fr)

    def ex_Pass(self, st, fr):
        pass

    def ex_Assert(self, st, fr):
        pass  # never a guard, and evaluated for nothing

    def ex_Expr(self, st, fr):
        if isinstance(st.value, ast.Constant):
            return
        self.ev(st.value, fr)

    def ex_Return(self, st, fr):
        raise _Return(self.ev(st.value, fr) if st.value is not None else None)

    def ex_Break(self, st, fr):
        raise _Break()

    def ex_Continue(self, st, fr):
        raise _Continue()

    def ex_Global(self, st, fr):
        self.refuse("global declaration", st)

    def ex_Nonlocal(self, st, fr):
        for n in st.names:
            fr.vars.setdefault("__nonlocal__", set()).add(n)

    def ex_Import(self, st, fr):
        self.refuse("local import", st)

    ex_ImportFrom = ex_Import

    def bind_name(self, name, v, fr):
        if name in fr.vars.get("__nonlocal__", ()):
            f = fr.parent
            while f is not None:
                if name in f.vars:
                    f.vars[name] = v
                    return
                f = f.parent
            self.refuse("nonlocal %s unbound" % name)
        fr.vars[name] = v

    def assign(self, t, v, fr):
        if isinstance(t, ast.Name):
            self.bind_name(t.id, v, fr)
        elif isinstance(t, (ast.Tuple, ast.List)):
            items = self.tolist(v, t)
            star = [i for i, x in enumerate(t.elts) if isinstance(x, ast.Starred)]
            if star:
                i = star[0]
                after = len(t.elts) - i - 1
                if len(items) < len(t.elts) - 1:
                    raise Raised(self.new_exc("ValueError"), t)
                for x, y in zip(t.elts[:i], items[:i]):
                    self.assign(x, y, fr)
                self.assign(t.elts[i].value, VList(items[i:len(items) - after]), fr)
                for x, y in zip(t.elts[i + 1:], items[len(items) - after:]):
                    self.assign(x, y, fr)
                return
            if len(items) != len(t.elts):
                raise Raised(self.new_exc("ValueError"), t)
            for x, y in zip(t.elts, items):
                self.assign(x, y, fr)
        elif isinstance(t, ast.Attribute):
            self.setattr(self.ev(t.value, fr), t.attr, v, t)
        elif isinstance(t, ast.Subscript):
            c = self.ev(t.value, fr)
            if isinstance(t.slice, ast.Slice):
                self.refuse("slice assignment", t)
            k = self.ev(t.slice, fr)
            if isinstance(c, VDict):
                self.d_set(c, k, v, t)
            elif isinstance(c, VList) and isinstance(k, int) and -len(c.items) <= k < len(c.items):
                c.items[k] = v
            else:
                self.refuse("subscript store on %r" % (c,), t)
        else:
            self.refuse("assignment target %s" % type(t).__name__, t)

    def ex_Assign(self, st, fr):
        v = self.ev(st.value, fr)
        for t in st.targets:
            self.assign(t, v, fr)

    def ex_AnnAssign(self, st, fr):
        if st.value is not None:
            self.assign(st.target, self.ev(st.value, fr), fr)

    def ex_AugAssign(self, st, fr):
        load = ast.copy_location(ast.BinOp(left=_as_load(st.target), op=st.op, right=st.value), st)
        t = st.target
        if isinstance(st.op, ast.Add):
            cur = self.ev(_as_load(t), fr)
            if isinstance(cur, VList):  # in-place extend
                cur.items.extend(self.tolist(self.ev(st.value, fr), st))
                return
        self.assign(t, self.ev(load, fr), fr)

    def ex_Delete(self, st, fr):
        for t in st.targets:
            if isinstance(t, ast.Subscript):
                c = self.ev(t.value, fr)
                k = self.ev(t.slice, fr)
                if isinstance(c, VDict):
                    self.d_del(c, k, st)
                elif isinstance(c, VList) and isinstance(k, int) and -len(c.items) <= k < len(c.items):
                    del c.items[k]
                else:
                    self.refuse("del on %r" % (c,), st)
            elif isinstance(t, ast.Name):
                fr.vars.pop(t.id, None)
            else:
                self.refuse("del target", st)

    def ex_If(self, st, fr):
        self.exec_block(st.body if self.truth(self.ev(st.test, fr)) else st.orelse, fr)

    def ex_While(self, st, fr):
        n = 0
        while self.truth(self.ev(st.test, fr)):
            n += 1
            if n > 200:
                self.refuse("while loop does not terminate in the small scope", st)
            try:
                self.exec_block(st.body, fr)
            except _Break:
                return
            except _Continue:
                continue
        self.exec_block(st.orelse, fr)

    def ex_For(self, st, fr):
        it = self.ev(st.iter, fr)
        for x in self.iterate(it, st.iter):
            self.assign(st.target, x, fr)
            try:
                self.exec_block(st.body, fr)
            except _Break:
                return
            except _Continue:
                continue
        self.exec_block(st.orelse, fr)

    def ex_FunctionDef(self, st, fr):
        if st.decorator_list:
            self.refuse("decorated nested function", st)
        fr.vars[st.name] = self.make_func(st, fr)

    def ex_AsyncFunctionDef(self, st, fr):
        fr.vars[st.name] = self.make_func(st, fr)

    def exc_matches(self, exc, classes, node=None):
        if isinstance(classes, tuple):
            return any(self.exc_matches(exc, c, node) for c in classes)
        if not isinstance(classes, ClassRef):
            self.refuse("except clause over %r" % (classes,), node)
        return self.is_instance(exc, classes, node)

    def ex_Try(self, st, fr):
        try:
            try:
                self.exec_block(st.body, fr)
            except Raised as r:
                for h in st.handlers:
                    if h.type is None or self.exc_matches(r.exc, self.ev(h.type, fr), h):
                        if h.name:
                            fr.vars[h.name] = r.exc
                        self.exec_block(h.body, fr)
                        break
                else:
                    raise
            else:
                self.exec_block(st.orelse, fr)
        finally:
            if st.finalbody:
                # a control-flow signal raised inside finally replaces the pending one, as in Python
                self.exec_block(st.finalbody, fr)

    def ex_Raise(self, st, fr):
        if st.exc is None:
            self.refuse("bare raise", st)
        v = self.ev(st.exc, fr)
        if isinstance(v, ClassRef):
            v = self.call(v, [], {}, st)
        if not isinstance(v, Obj):
            self.refuse("raise of %r" % (v,), st)
        raise Raised(v, st)

    def ex_With(self, st, fr):
        if len(st.items) != 1 or st.items[0].optional_vars is not None:
            self.refuse("with statement", st)
        cm = self.ev(st.items[0].context_expr, fr)
        if not isinstance(cm, Suppress):
            self.refuse("with statement over %r" % (cm,), st)
        try:
            self.exec_block(st.body, fr)
        except Raised as r:
            if not self.exc_matches(r.exc, cm.classes, st):
                raise

    # -- entry ----------------------------------------------------------------------------------------------------------
    def run_method(self, fi, self_obj, args, kwargs=None):
        """-> ("return", value) | ("raise", exception individual)"""
        self.self_obj = self_obj
        f = Func(fi.node, fi.module, bound=[self_obj], qn=fi.qn)
        try:
            return ("return", self.call(f, args, kwargs or {}, fi.node))
        except Raised as r:
            return ("raise", r.exc)
        except (_Break, _Continue):
            self.refuse("loop control outside a loop")

    def try_call(self, f, args=()):
        try:
            return ("return", self.call(f, list(args), {}, None))
        except Raised as r:
            return ("raise", r.exc)


def _as_load(t):
    import copy
    t2 = copy.deepcopy(t)
    for n in ast.walk(t2):
        if hasattr(n, "ctx"):
            n.ctx = ast.Load()
    return t2


def explore(run, max_runs=400):
    """run(script) -> (interp, result).  Explores every combination of outcomes of the undecided facts met by the
    runs (depth-first over the choice tree).  -> list of (interp, result)."""
    out = []
    stack = [[]]
    while stack:
        script = stack.pop()
        it, res = run(script)
        out.append((it, res))
        if len(out) > max_runs:
            raise AnalysisError("small-scope evaluator: more than %d runs" % max_runs)
        for i in range(len(script), len(it.choices)):
            stack.append(it.choices[:i] + [not it.choices[i]])
    return out


# =====================================================================================================================
# Extended evaluator (clauses C02.k, C02.l, C02.m)
#
# The clauses about Message.decode, the route-checked resolver and the udp6 send-error path evaluate code that lives
# outside the token manager: class methods that construct objects of the package (whose __init__ must run to know
# what a constructor keyword means), coroutines, an async generator consumed by a single __anext__(), context
# managers of the standard library, struct, contextvars and callbacks handed to the event loop.  XInterp adds
# exactly these forms to the vocabulary, each with its Python meaning:
#
# * `evaluate_classes`: classes of the package whose instances are built by running __init__ (through the MRO,
#   `super()` included; a base outside the package is an opaque call) and whose methods, properties and class
#   attributes are looked up like Python does -- the baseline filter of the token-manager worlds (confirmed methods
#   are opaque events) does not apply to them.  `self.__x` is name-mangled per defining class.
# * calling an `async def` gives a coroutine object that runs when awaited; awaiting anything else hands the value
#   through (the world's model of an awaitable library call returns the awaited result directly; an opaque
#   individual gives an unknown result).
# * calling a generator function gives a generator object.  `g.__anext__()` / `anext(g)` / `next(g)` run it to its
#   FIRST yield (suspended there: `finally` blocks and context managers around the yield do not run), ending
#   without a yield raises StopAsyncIteration / StopIteration as Python does; a second step is outside the
#   vocabulary.  Iterating a generator object collects it eagerly.
# * `with cm [as x]` over an opaque individual binds the individual itself (sockets, files and locks return
#   themselves from __enter__) and lets exceptions of the body pass.
# * struct.pack / unpack / Struct are computed by the checker's own struct module on constant arguments.
# * contextvars.ContextVar / copy_context with the interpreter's current context (`context`, a plain mapping that a
#   world snapshots when it models loop.call_soon and friends, as asyncio does).
# * bare `raise` inside a handler, local imports of library modules, `del obj.attr`, `setattr`.
# =====================================================================================================================

class Coro:
    def __init__(self, func, args, kwargs):
        self.func, self.args, self.kwargs, self.done = func, list(args), dict(kwargs), False

    def __repr__(self):
        return "<coroutine %r>" % (self.func,)


class Gen:
    def __init__(self, func, args, kwargs, is_async):
        self.func, self.args, self.kwargs, self.is_async, self.started = func, list(args), dict(kwargs), is_async, False

    def __repr__(self):
        return "<generator %r>" % (self.func,)


class GenStep:
    """The awaitable returned by agen.__anext__() / anext(agen[, default])."""
    _none = object()

    def __init__(self, gen, default=_none):
        self.gen, self.default = gen, default


class CtxVar:
    _none = object()

    def __init__(self, name, default=_none):
        self.name, self.default = name, default

    def __repr__(self):
        return "<ContextVar %s>" % (self.name,)


class CtxToken:
    def __init__(self, var, had, old):
        self.var, self.had, self.old = var, had, old


class CtxSnap:
    def __init__(self, mapping):
        self.mapping = dict(mapping)


class StructObj:
    def __init__(self, fmt):
        self.fmt = fmt


class HostFunc:
    """A callable supplied by the world: fn(interp, args, kwargs, node) -> value."""

    def __init__(self, name, fn):
        self.name, self.fn = name, fn

    def __repr__(self):
        return "<world function %s>" % self.name


class SuperCall:
    def __init__(self, frame):
        self.frame = frame


class SuperProxy:
    def __init__(self, obj, after):
        self.obj, self.after = obj, after


class XMethod:
    def __init__(self, recv, name):
        self.recv, self.name = recv, name

    def __repr__(self):
        return "<method %s of %r>" % (self.name, self.recv)


class _Yielded(Exception):
    def __init__(self, value):
        self.value = value


_XEXTERNAL = {"struct.unpack": "struct.unpack", "struct.pack": "struct.pack", "struct.unpack_from": "struct.unpack_from",
              "struct.calcsize": "struct.calcsize", "struct.Struct": "struct.Struct", "struct.pack_into": None,
              "contextvars.ContextVar": "ContextVar", "contextvars.copy_context": "copy_context"}
_XBUILTINS = {"super", "anext", "next", "setattr", "aiter"}
_XMETHODS = {Gen: {"__anext__", "__aiter__", "__next__", "__iter__", "aclose", "close", "asend", "send"},
             CtxVar: {"get", "set", "reset"}, CtxSnap: {"run"}, StructObj: {"unpack", "pack", "unpack_from"}}


def _own_nodes(fn):
    """Nodes of a function body without those of nested functions / lambdas / classes."""
    todo = list(fn.body)
    while todo:
        n = todo.pop()
        yield n
        if isinstance(n, (ast.FunctionDef, ast.AsyncFunctionDef, ast.Lambda, ast.ClassDef)):
            continue
        todo.extend(ast.iter_child_nodes(n))


class XInterp(Interp):
    def __init__(self, prog, script=(), opaque_call=None, isa=None, max_steps=40000, evaluate_classes=()):
        Interp.__init__(self, prog, script, opaque_call, isa, max_steps)
        self.evaluate = set(evaluate_classes)
        self.context = {}
        self.handling = []

    # -- names ---------------------------------------------------------------------------------------------------
    def lookup(self, name, frame, node=None):
        if name in _XBUILTINS:
            f = frame
            while f is not None:
                if name in f.vars:
                    return f.vars[name]
                f = f.parent
            m = frame.module
            if not (m.name + "." + name in self.prog.funcs or name in m.imports or self.prog._module_defines(m, name)):
                return SuperCall(frame) if name == "super" else Builtin(name)
        return Interp.lookup(self, name, frame, node)

    def global_ref(self, qn):
        if _XEXTERNAL.get(qn) is not None:
            return Builtin(_XEXTERNAL[qn])
        return Interp.global_ref(self, qn)

    def owner_class(self, fr):
        """The class whose body lexically contains the code running in frame fr (for name mangling and super())."""
        f = fr
        while f is not None:
            fn = getattr(f, "func", None)
            if fn is not None and fn.qn is not None:
                fi = self.prog.funcs.get(fn.qn)
                if fi is not None and fi.cls is not None:
                    return fi.cls.qn, f
            f = f.parent
        return None, None

    def mangle(self, name, fr):
        if name.startswith("__") and not name.endswith("__"):
            cq, _f = self.owner_class(fr)
            if cq is not None:
                return "_%s%s" % (cq.rsplit(".", 1)[-1].lstrip("_"), name)
        return name

    # -- attribute access ------------------------------------------------------------------------------------------
    def ev_Attribute(self, e, fr):
        return self.getattr(self.ev(e.value, fr), self.mangle(e.attr, fr), e)

    def evaluated_cls(self, v):
        return isinstance(v, Obj) and v.cls is not None and v.cls in self.evaluate

    def getattr(self, v, name, node=None):
        if self.evaluated_cls(v):
            if name in v.attrs:
                return v.attrs[name]
            fi = self.prog.lookup_method(v.cls, name)
            if fi is not None:
                decos = {chain(d) for d in fi.node.decorator_list}
                if decos and decos <= {"property", "functools.cached_property", "cached_property"}:
                    return self.call(Func(fi.node, fi.module, bound=[v], qn=fi.qn), [], {}, node)
                return self.bind_method(fi, v)
            e, ci = self.prog.class_attr(v.cls, name)
            if e is not None:
                return self.ev(e, Frame(ci.module))
            child = Obj(v.name + "." + name, known=False, parent=v, attr=name)
            v.attrs[name] = child
            return child
        if isinstance(v, SuperProxy):
            cls = v.obj.cls if isinstance(v.obj, Obj) else v.obj.qn if isinstance(v.obj, ClassRef) else None
            if cls is None:
                self.refuse("super() on %r" % (v.obj,), node)
            mro = self.prog.mro(cls)
            if v.after not in mro:
                self.refuse("super(): %s is not among the ancestors of %s" % (v.after, cls), node)
            for q in mro[mro.index(v.after) + 1:]:
                if q in self.prog.classes:
                    ci = self.prog.classes[q]
                    if name in ci.methods:
                        if isinstance(v.obj, Obj):
                            return self.bind_method(ci.methods[name], v.obj)
                        return self.bind_method(ci.methods[name], None, cls=v.obj)
                else:
                    # a base class outside the package: what its method does is not modelled, the call is an event
                    return Obj("ext:%s.%s" % (q, name), known=True)
            return HostFunc("object.%s" % name, lambda it, a, k, n: None)
        if isinstance(v, Builtin) and (v.name, name) == ("int", "from_bytes"):
            def from_bytes(it, a, k, n):
                if not all(isinstance(x, NATIVE) and x is not None for x in list(a) + list(k.values())):
                    it.refuse("int.from_bytes on non-constant arguments", n)
                try:
                    return int.from_bytes(*a, **k)
                except Exception:
                    it.refuse("int.from_bytes fails", n)
            return HostFunc("int.from_bytes", from_bytes)
        for t, names in _XMETHODS.items():
            if isinstance(v, t):
                if isinstance(v, StructObj) and name == "size":
                    import struct
                    return struct.calcsize(v.fmt)
                if isinstance(v, StructObj) and name == "format":
                    return v.fmt
                if isinstance(v, CtxVar) and name == "name":
                    return v.name
                if name in names:
                    return XMethod(v, name)
                self.refuse("attribute %s of %r" % (name, v), node)
        return Interp.getattr(self, v, name, node)

    def assign(self, t, v, fr):
        if isinstance(t, ast.Attribute):
            self.setattr(self.ev(t.value, fr), self.mangle(t.attr, fr), v, t)
            return
        Interp.assign(self, t, v, fr)

    def ex_Delete(self, st, fr):
        for t in st.targets:
            if isinstance(t, ast.Attribute):
                o = self.ev(t.value, fr)
                name = self.mangle(t.attr, fr)
                if not isinstance(o, Obj):
                    self.refuse("del of an attribute of %r" % (o,), st)
                if name not in o.attrs and o.known and self.evaluated_cls(o):
                    raise Raised(self.new_exc("AttributeError"), st)
                o.attrs.pop(name, None)
                self.events.append(Event("delattr", obj=o, attr=name, node=st))
            else:
                one = ast.copy_location(ast.Delete(targets=[t]), st)
                Interp.ex_Delete(self, one, fr)

    # -- calls -----------------------------------------------------------------------------------------------------------
    def call(self, f, args, kwargs=None, node=None):
        kwargs = kwargs or {}
        if isinstance(f, HostFunc):
            return f.fn(self, list(args), dict(kwargs), node)
        if isinstance(f, SuperCall):
            if args or kwargs:
                self.refuse("super() with arguments", node)
            cq, mf = self.owner_class(f.frame)
            if cq is None:
                self.refuse("super() outside a method", node)
            a = mf.func.node.args
            first = (a.posonlyargs + a.args)[:1]
            if not first or first[0].arg not in mf.vars:
                self.refuse("super() in a method without a receiver", node)
            return SuperProxy(mf.vars[first[0].arg], cq)
        if isinstance(f, ClassRef) and f.qn in self.evaluate:
            return self.instantiate(f.qn, list(args), dict(kwargs), node)
        if isinstance(f, XMethod):
            return self.call_xmethod(f, list(args), dict(kwargs), node)
        return Interp.call(self, f, args, kwargs, node)

    def instantiate(self, qn, args, kwargs, node=None):
        o = self.fresh("new:" + qn, known=True, cls=qn)
        self.events.append(Event("new", cls=qn, obj=o, args=list(args), kwargs=dict(kwargs), node=node, evaluated=True))
        init = self.prog.lookup_method(qn, "__init__")
        if init is not None:
            self.run_func(Func(init.node, init.module, qn=init.qn), [o] + list(args), dict(kwargs), node)
        return o

    def call_func(self, f, args, kwargs, node):
        fn = f.node
        if not isinstance(fn, ast.Lambda):
            is_async = isinstance(fn, ast.AsyncFunctionDef)
            if any(isinstance(n, (ast.Yield, ast.YieldFrom)) for n in _own_nodes(fn)):
                return Gen(f, list(f.bound or []) + list(args), kwargs, is_async)
            if is_async:
                return Coro(f, list(f.bound or []) + list(args), kwargs)
        return self.run_func(f, list(f.bound or []) + list(args), kwargs, node)

    def run_func(self, f, args, kwargs, node, gen=None):
        """Interp.call_func with the frame remembering its function (name mangling, super()) and generator mode;
        `args` already contains the bound receiver."""
        fn = f.node
        self.depth += 1
        if self.depth > 40:
            self.refuse("call depth", node)
        try:
            fr = Frame(f.module, parent=f.closure, fnode=fn)
            fr.func = f
            fr.gen = gen
            if f.closure is None and not f.defaults and not f.kwdefaults and (fn.args.defaults or any(d is not None for d in fn.args.kw_defaults)):
                mf = Frame(f.module)
                mf.func = f  # defaults of a method are evaluated in the class body: same mangling
                f.defaults = [self.ev(d, mf) for d in fn.args.defaults]
                f.kwdefaults = {a.arg: self.ev(d, mf) for a, d in zip(fn.args.kwonlyargs, fn.args.kw_defaults) if d is not None}
            unbound = Func(f.node, f.module, closure=f.closure, defaults=f.defaults, kwdefaults=f.kwdefaults, qn=f.qn)
            self.bind_args(unbound, list(args), kwargs, fr, node)
            if isinstance(fn, ast.Lambda):
                return self.ev(fn.body, fr)
            try:
                self.exec_block(fn.body, fr)
            except _Return as r:
                return r.value
            return None
        finally:
            self.depth -= 1

    def gen_frame(self, fr):
        f = fr
        while f is not None and getattr(f, "comp", False):
            f = f.parent
        return f

    def ev_Yield(self, e, fr):
        v = self.ev(e.value, fr) if e.value is not None else None
        g = self.gen_frame(fr)
        mode = getattr(g, "gen", None)
        if mode is None:
            self.refuse("yield outside a generator run", e)
        if mode[0] == "first":
            raise _Yielded(v)
        mode[1].append(v)
        return None

    def ev_YieldFrom(self, e, fr):
        self.refuse("yield from", e)

    def gen_first(self, gen, node=None):
        """Run a fresh generator object to its first yield."""
        if gen.started:
            self.refuse("a generator is resumed a second time", node)
        gen.started = True
        try:
            self.run_func(gen.func, gen.args, gen.kwargs, node, gen=("first", None))
        except _Yielded as y:
            return y.value
        raise Raised(self.new_exc("StopAsyncIteration" if gen.is_async else "StopIteration"), node)

    def gen_collect(self, gen, node=None):
        if gen.started:
            self.refuse("a generator is resumed a second time", node)
        gen.started = True
        items = []
        try:
            self.run_func(gen.func, gen.args, gen.kwargs, node, gen=("collect", items))
        except Raised as r:
            return items, r
        return items, None

    def iterate(self, v, node=None):
        if isinstance(v, Gen):
            items, r = self.gen_collect(v, node)
            for x in items:
                yield x
            if r is not None:
                raise r
            return
        for x in Interp.iterate(self, v, node):
            yield x

    def await_value(self, v, node=None):
        if isinstance(v, Coro):
            if v.done:
                raise Raised(self.new_exc("RuntimeError"), node)
            v.done = True
            return self.run_func(v.func, v.args, v.kwargs, node)
        if isinstance(v, GenStep):
            if v.default is GenStep._none:
                return self.gen_first(v.gen, node)
            try:
                return self.gen_first(v.gen, node)
            except Raised as r:
                if r.exc.cls in ("StopAsyncIteration", "StopIteration"):
                    return v.default
                raise
        if isinstance(v, Obj):
            self.events.append(Event("await", obj=v, node=node))
            return self.fresh("result of awaiting %s" % v.name)
        return v

    def ev_Await(self, e, fr):
        return self.await_value(self.ev(e.value, fr), e)

    def call_xmethod(self, m, args, kwargs, node):
        r, name, n = m.recv, m.name, len(args)
        if isinstance(r, Gen):
            if name in ("__aiter__", "__iter__") and n == 0:
                return r
            if name == "__anext__" and n == 0 and r.is_async:
                return GenStep(r)
            if name == "__next__" and n == 0 and not r.is_async:
                return self.gen_first(r, node)
            if name in ("aclose", "close") and n == 0:
                r.started = True
                return None
        if isinstance(r, CtxVar):
            if name == "get" and n <= 1 and not kwargs:
                if r in self.context:
                    return self.context[r]
                if n == 1:
                    return args[0]
                if r.default is not CtxVar._none:
                    return r.default
                raise Raised(self.new_exc("LookupError"), node)
            if name == "set" and n == 1 and not kwargs:
                tok = CtxToken(r, r in self.context, self.context.get(r))
                self.context[r] = args[0]
                self.events.append(Event("ctxset", var=r, value=args[0], node=node))
                return tok
            if name == "reset" and n == 1 and isinstance(args[0], CtxToken) and args[0].var is r:
                if args[0].had:
                    self.context[r] = args[0].old
                else:
                    self.context.pop(r, None)
                return None
        if isinstance(r, CtxSnap):
            if name == "run" and n >= 1:
                return self.run_in_context(r.mapping, args[0], args[1:], kwargs, node, keep=r)
        if isinstance(r, StructObj):
            return self.struct_call(name, [r.fmt] + args, kwargs, node)
        self.refuse("method %s/%d of %r" % (name, n, r), node)

    def run_in_context(self, mapping, f, args=(), kwargs=None, node=None, keep=None):
        """Call f with `mapping` as the current context (Context.run / a callback scheduled by the loop)."""
        saved = self.context
        self.context = dict(mapping)
        try:
            return self.call(f, list(args), kwargs or {}, node)
        finally:
            if keep is not None:
                keep.mapping = dict(self.context)
            self.context = saved

    def struct_call(self, name, args, kwargs, node):
        import struct
        if kwargs or not args or not isinstance(args[0], (str, bytes)) or not all(isinstance(a, NATIVE) and a is not None for a in args):
            self.refuse("struct.%s on non-constant arguments" % name, node)
        try:
            r = getattr(struct, name)(*args)
        except struct.error:
            raise Raised(self.new_exc("struct.error"), node)
        except Exception:
            self.refuse("struct.%s fails" % name, node)
        return r

    def call_builtin(self, name, args, kwargs, node):
        n = len(args)
        if name.startswith("struct."):
            short = name.split(".", 1)[1]
            if short == "Struct":
                if n != 1 or kwargs or not isinstance(args[0], (str, bytes)):
                    self.refuse("struct.Struct on a non-constant format", node)
                self.struct_call("calcsize", [args[0]], {}, node)
                return StructObj(args[0])
            return self.struct_call(short, list(args), kwargs, node)
        if name == "ContextVar":
            if n != 1 or set(kwargs) - {"default"}:
                raise Raised(self.new_exc("TypeError"), node)
            return CtxVar(args[0], kwargs["default"]) if "default" in kwargs else CtxVar(args[0])
        if name == "copy_context" and n == 0 and not kwargs:
            return CtxSnap(self.context)
        if name == "anext" and n in (1, 2) and not kwargs and isinstance(args[0], Gen) and args[0].is_async:
            return GenStep(args[0]) if n == 1 else GenStep(args[0], args[1])
        if name == "next" and n in (1, 2) and not kwargs and isinstance(args[0], Gen) and not args[0].is_async:
            try:
                return self.gen_first(args[0], node)
            except Raised as r:
                if n == 2 and r.exc.cls == "StopIteration":
                    return args[1]
                raise
        if name in ("aiter", "iter") and n == 1 and isinstance(args[0], Gen):
            return args[0]
        if name == "setattr" and n == 3 and not kwargs and isinstance(args[1], str):
            self.setattr(args[0], args[1], args[2], node)
            return None
        if name in _XBUILTINS:
            self.refuse("builtin %s/%d" % (name, n), node)
        return Interp.call_builtin(self, name, args, kwargs, node)

    # -- statements ---------------------------------------------------------------------------------------------------
    def ex_Import(self, st, fr):
        for a in st.names:
            if a.name.split(".")[0] == "aiocoap":
                self.refuse("local import of a package module", st)
            fr.vars[a.asname or a.name.split(".")[0]] = ModuleRef(a.name if a.asname else a.name.split(".")[0])

    def ex_ImportFrom(self, st, fr):
        if st.level or (st.module or "").split(".")[0] == "aiocoap":
            self.refuse("local import of a package module", st)
        for a in st.names:
            fr.vars[a.asname or a.name] = self.global_ref("%s.%s" % (st.module, a.name))

    def ex_Try(self, st, fr):
        suspended = False
        try:
            try:
                self.exec_block(st.body, fr)
            except Raised as r:
                for h in st.handlers:
                    if h.type is None or self.exc_matches(r.exc, self.ev(h.type, fr), h):
                        if h.name:
                            fr.vars[h.name] = r.exc
                        self.handling.append(r)
                        try:
                            self.exec_block(h.body, fr)
                        finally:
                            self.handling.pop()
                        break
                else:
                    raise
            else:
                self.exec_block(st.orelse, fr)
        except _Yielded:
            suspended = True  # the generator is suspended inside the statement: its finally block has not run
            raise
        finally:
            if st.finalbody and not suspended:
                self.exec_block(st.finalbody, fr)

    def ex_Raise(self, st, fr):
        if st.exc is None:
            if not self.handling:
                raise Raised(self.new_exc("RuntimeError"), st)
            raise Raised(self.handling[-1].exc, st)
        Interp.ex_Raise(self, st, fr)

    def ex_With(self, st, fr):
        def enter(i):
            if i == len(st.items):
                self.exec_block(st.body, fr)
                return
            item = st.items[i]
            cm = self.ev(item.context_expr, fr)
            if isinstance(cm, Suppress):
                if item.optional_vars is not None:
                    self.assign(item.optional_vars, None, fr)
                try:
                    enter(i + 1)
                except Raised as r:
                    if not self.exc_matches(r.exc, cm.classes, st):
                        raise
                return
            if not isinstance(cm, Obj):
                self.refuse("with statement over %r" % (cm,), st)
            if self.evaluated_cls(cm):
                self.refuse("with statement over an evaluated object", st)
            # an opaque manager of a library: __enter__ hands back the manager itself (sockets, files, locks),
            # __exit__ lets exceptions pass
            self.events.append(Event("enter", obj=cm, node=st))
            if item.optional_vars is not None:
                self.assign(item.optional_vars, cm, fr)
            try:
                enter(i + 1)
            except _Yielded:
                raise
            finally:
                self.events.append(Event("exit", obj=cm, node=st))
        enter(0)

    ex_AsyncWith = ex_With
    ex_AsyncFor = Interp.ex_For

    # -- entry ------------------------------------------------------------------------------------------------------------
    def run(self, thunk):
        """-> ("return", value) | ("raise", exception individual, raising node)"""
        try:
            return ("return", thunk(), None)
        except Raised as r:
            return ("raise", r.exc, r.node)
        except (_Break, _Continue):
            self.refuse("loop control outside a loop")
        except _Yielded:
            self.refuse("yield outside a generator run")
