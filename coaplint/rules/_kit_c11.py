"""Helpers of rules/c11.py: a path-wise symbolic executor over the engine's CFG.

`Runner(fi)` enumerates the normal-flow paths of a (small) function.  Along a path every local is
replaced by the expression it holds *in terms of the entry state* (parameters, attribute chains,
module names, results of calls), so that a rule never sees local names, statement order, nesting,
early returns, tuple assignments, named temporaries, `x or y` against `if not x: x = y`, conditional
expressions against `if/else`, `+=` against `= .. + ..`, `L.append/extend/+=` against a longer list
display, or a loop over a literal display against its unrolled form.

Values are ordinary `ast` expressions.  A sub-expression that was evaluated once is *shared* (the same
object) wherever the local that held it is used, so `same_val` can tell "the same call result" from
"another call of the same function" (identity for impure calls, structure for everything else).

Nothing is executed.  Conditions are uninterpreted booleans keyed by their normalised text
(`paths.atom_key`) unless the subclass interprets them (`decide`); a decision is taken once per key
and path.  Subclasses model the few stateful objects a clause is about (`eval_hook`, `on_delete`):
the reader of the OSCORE option (windows of the option bytes), the writer (the map of unprotected
fields being drained).
"""

import ast

from ..model import AnalysisError, walk_no_nested, stmt_text
from ..cfg import cfg_of
from ..pat import chain, dump
from ..paths import atom_key
from .. import norm
from ..norm import Poly


class NeedDecision(Exception):
    def __init__(self, key):
        self.key = key


class PyRaise(Exception):
    """An evaluated expression raises the builtin exception `cls` (modelled objects only)."""

    def __init__(self, cls, node=None):
        self.cls = cls
        self.node = node  # the `raise` statement of an executed local helper the exception comes from (None: implicit)


class RPath:
    __slots__ = ("nodes", "conds", "facts", "events", "end", "value", "endnode", "env", "state", "exc")

    def __init__(self):
        self.nodes = []    # CFG node ids in execution order
        self.conds = []    # (evaluated condition, outcome, nid)
        self.facts = {}    # decision key -> bool
        self.events = []   # ('store', target, value, stmt) | ('call', call, stmt) | ('del', target, stmt)
        self.end = None    # 'return' | 'fall' | 'raise' | 'cut'
        self.value = None  # evaluated return value / raised expression
        self.endnode = None
        self.env = None
        self.state = None
        self.exc = None    # class name of the exception that ends the path (when known)


BUILTIN_BASES = {
    "KeyError": ("LookupError",), "IndexError": ("LookupError",), "UnicodeDecodeError": ("UnicodeError", "ValueError"),
    "UnicodeEncodeError": ("UnicodeError", "ValueError"), "UnicodeError": ("ValueError",), "ZeroDivisionError": ("ArithmeticError",),
    "OverflowError": ("ArithmeticError",), "FileNotFoundError": ("OSError",), "NotImplementedError": ("RuntimeError",),
    "RecursionError": ("RuntimeError",), "ModuleNotFoundError": ("ImportError",),
}

PURE_FUNCS = {"len", "bytes", "int", "bool", "str", "tuple", "list", "min", "max", "abs", "isinstance", "repr", "sum", "sorted", "divmod", "int.from_bytes"}
PURE_METHODS = {"to_bytes", "lstrip", "rstrip", "strip", "hex", "encode", "decode", "bit_length", "lower", "upper", "startswith", "endswith",
                "is_request", "is_response", "is_successful", "join", "split", "rjust", "ljust", "zfill"}
LIST_MUTATORS = {"append", "extend", "insert", "pop", "remove", "clear", "sort", "reverse"}
DICT_MUTATORS = {"pop", "popitem", "clear", "update", "setdefault"}


def sym(text):
    """An opaque value."""
    return ast.Name(id="‹%s›" % text, ctx=ast.Load())


def is_sym(e, prefix=""):
    return isinstance(e, ast.Name) and e.id.startswith("‹" + prefix)


def txt(e):
    return " ".join(ast.unparse(e).split())


def _is_log(c):
    n = chain(c.func) or ""
    parts = n.split(".")
    return (len(parts) >= 2 and parts[-2] in ("log", "_alglog", "logger", "logging")) or n in ("warnings.warn", "print")


def is_pure_call(c):
    f = c.func
    if isinstance(f, ast.Name):
        return f.id in PURE_FUNCS
    if isinstance(f, ast.Attribute):
        return f.attr in PURE_METHODS or chain(f) in PURE_FUNCS
    return False


def same_val(a, b):
    """Do two evaluated expressions denote the same value?  Structural equality, except that the
    result of an impure call is only equal to itself (the shared object)."""
    if a is b:
        return True
    if type(a) is not type(b):
        return False
    if isinstance(a, ast.Call) and not is_pure_call(a):
        return False
    if isinstance(a, ast.AST):
        for (fa, va), (fb, vb) in zip(ast.iter_fields(a), ast.iter_fields(b)):
            if fa in ("ctx", "type_comment", "kind"):
                continue
            if not same_val(va, vb):
                return False
        return True
    if isinstance(a, list):
        return len(a) == len(b) and all(same_val(x, y) for x, y in zip(a, b))
    return a == b


def truth_view(cond, outcome):
    """(subject, truthy) when the decided condition says that `subject` is non-empty / non-zero (truthy True) or
    empty / zero (False): `x`, `not x`, `len(x)`, `len(x) == 0`, `len(x) > 0`, `len(x) >= 1`, `x == b''`, `x != b''`."""
    e, pol = cond, outcome
    while isinstance(e, ast.UnaryOp) and isinstance(e.op, ast.Not):
        e, pol = e.operand, not pol
    if isinstance(e, ast.Compare) and len(e.ops) == 1:
        l, op, r = e.left, e.ops[0], e.comparators[0]
        for x, y, mirrored in ((l, r, False), (r, l, True)):
            if isinstance(y, ast.Constant) and (y.value == b"" or y.value == "" or (y.value == 0 and not isinstance(y.value, bool))) and isinstance(op, (ast.Eq, ast.NotEq)):
                sub = x.args[0] if _is_len(x) else x
                return sub, pol == isinstance(op, ast.NotEq)
            if _is_len(x) and isinstance(y, ast.Constant) and isinstance(y.value, int):
                o = type(op)
                if mirrored:
                    o = {ast.Lt: ast.Gt, ast.Gt: ast.Lt, ast.LtE: ast.GtE, ast.GtE: ast.LtE}.get(o, o)
                if (o, y.value) in ((ast.Gt, 0), (ast.GtE, 1)):
                    return x.args[0], pol
                if (o, y.value) in ((ast.Lt, 1), (ast.LtE, 0)):
                    return x.args[0], not pol
        return None
    if _is_len(e):
        return e.args[0], pol
    return e, pol


def _is_len(e):
    return isinstance(e, ast.Call) and isinstance(e.func, ast.Name) and e.func.id == "len" and len(e.args) == 1 and not e.keywords


class Runner:
    def __init__(self, fi, prog=None, fork_values=True, max_paths=3000, unroll=True, stop_at=(), for_iters=1, keytag=""):
        """stop_at: CFG node ids; a path that reaches one of them ends there (end == 'stop') after evaluating that statement's
        value expression into path.value.  for_iters: how many iterations of a loop over an unknown iterable are executed before
        the loop is left (the values written by the body are unknown afterwards); keytag: prefix of the per-occurrence decision
        keys of loops (distinguishes the activations of a helper executed by FlowRunner)."""
        self.stop_at = set(stop_at)
        self.for_iters = for_iters
        self.keytag = keytag
        self.fi = fi
        self.prog = prog
        self.cfg = cfg_of(fi)
        self.fork_values = fork_values
        self.max_paths = max_paths
        self.unroll = unroll
        self._paths = None

    # ---- hooks -------------------------------------------------------------------
    def new_state(self):
        return None

    def eval_hook(self, e):
        """Called on every evaluated Call / Subscript / Compare / Attribute (operands already evaluated); return a
        replacement expression or None.  May raise PyRaise and use self.choose()."""
        return None

    def decide(self, cond):
        """True / False for a condition the subclass can evaluate, (key, polarity) to decide it under the
        subclass' own key, None for the generic uninterpreted treatment."""
        return None

    def on_delete(self, target):
        return False

    def on_mutating_call(self, call):
        """An expression statement `recv.method(...)` on a modelled object; return True when handled."""
        return False

    def initial_env(self):
        """Values of names at entry (e.g. a parameter bound to one concrete value of a finite domain)."""
        return {}

    def iter_view(self, it):
        """The evaluated iterable of a `for` as a display of its elements when the subclass knows them (a dict literal
        iterates over its keys, ...); default: the value itself."""
        return it

    def _make_env(self):
        return dict(self.initial_env())

    def _make_heap(self):
        return {}

    def _make_path(self):
        return RPath()

    # ---- driver --------------------------------------------------------------------
    def paths(self):
        if self._paths is None:
            out = []
            work = [{}]
            runs = 0
            while work:
                script = work.pop()
                runs += 1
                if runs > 40 * self.max_paths or len(out) > self.max_paths:
                    raise AnalysisError("C11 path runner: %s has too many paths" % self.fi.short)
                try:
                    out.append(self._run(script))
                except NeedDecision as nd:
                    for v in (False, True):
                        s2 = dict(script)
                        s2[nd.key] = v
                        work.append(s2)
            self._paths = out
        return self._paths

    def returning(self):
        return [p for p in self.paths() if p.end in ("return", "fall")]

    def choose(self, key):
        if key in self.script:
            self.path.facts[key] = self.script[key]
            return self.script[key]
        raise NeedDecision(key)

    # ---- evaluation --------------------------------------------------------------------
    def ev(self, e, bound=frozenset()):
        """Evaluate (substitute) expression e in the current environment."""
        if e is None:
            return None
        if isinstance(e, ast.Name):
            if isinstance(e.ctx, ast.Load) and e.id not in bound and e.id in self.env:
                return self.env[e.id]
            return e
        if isinstance(e, ast.Constant):
            return e
        if isinstance(e, ast.IfExp) and not bound:
            t = self.ev(e.test)
            if self.fork_values:
                return self.ev(e.body) if self.truthv(t) else self.ev(e.orelse)
            c = self._const_truth(t)
            if c is not None:
                return self.ev(e.body) if c else self.ev(e.orelse)
            return self._rebuild(e, {"test": t, "body": self.ev(e.body), "orelse": self.ev(e.orelse)})
        if isinstance(e, ast.BoolOp) and not bound and self.fork_values:
            is_or = isinstance(e.op, ast.Or)
            for v in e.values[:-1]:
                x = self.ev(v)
                if self.truthv(x) == is_or:
                    return x
            return self.ev(e.values[-1])
        if isinstance(e, ast.NamedExpr) and not bound:
            v = self.ev(e.value)
            self.env[e.target.id] = v
            return v
        if isinstance(e, ast.Lambda):
            a = e.args
            b2 = bound | {x.arg for x in a.posonlyargs + a.args + a.kwonlyargs} | ({a.vararg.arg} if a.vararg else set()) | ({a.kwarg.arg} if a.kwarg else set())
            return self._rebuild(e, {"body": self._subst(e.body, b2), "args": self._rebuild(a, {"defaults": [self.ev(d, bound) for d in a.defaults],
                                                                                              "kw_defaults": [self.ev(d, bound) if d is not None else None for d in a.kw_defaults]})})
        if isinstance(e, (ast.ListComp, ast.SetComp, ast.GeneratorExp, ast.DictComp)):
            b2 = set(bound)
            gens = []
            for g in e.generators:
                it = self._subst(g.iter, frozenset(b2))
                for x in ast.walk(g.target):
                    if isinstance(x, ast.Name):
                        b2.add(x.id)
                gens.append(self._rebuild(g, {"iter": it, "ifs": [self._subst(i, frozenset(b2)) for i in g.ifs]}))
            fields = {"generators": gens}
            for f in ("elt", "key", "value"):
                if hasattr(e, f):
                    fields[f] = self._subst(getattr(e, f), frozenset(b2))
            return self._rebuild(e, fields)
        if bound:
            return self._subst(e, bound)
        # generic: evaluate children left to right
        fields = {}
        for f, v in ast.iter_fields(e):
            if isinstance(v, ast.expr):
                fields[f] = self.ev(v)
            elif isinstance(v, list) and v and all(x is None or isinstance(x, ast.AST) for x in v):
                fields[f] = [self._ev_child(x) for x in v]
        out = self._rebuild(e, fields)
        out = self._fold(out)
        if isinstance(out, ast.Attribute) and self.heap:
            c = chain(out)
            if c is not None and c in self.heap:
                return self.heap[c]
        if isinstance(out, ast.Call) and self.heap and not is_pure_call(out) and not _is_log(out):
            self.heap.clear()  # an arbitrary call may store to any attribute
        if isinstance(out, (ast.Call, ast.Subscript, ast.Compare, ast.Attribute)):
            r = self.eval_hook(out)
            if r is not None:
                return r
        return out

    def _ev_child(self, x):
        if isinstance(x, ast.expr):
            return self.ev(x)
        if isinstance(x, ast.keyword):
            return self._rebuild(x, {"value": self.ev(x.value)})
        return x

    def _subst(self, e, bound):
        """Plain substitution (no forking, no hooks) below binders."""
        if isinstance(e, ast.Name):
            if isinstance(e.ctx, ast.Load) and e.id not in bound and e.id in self.env:
                return self.env[e.id]
            return e
        if isinstance(e, (ast.Lambda, ast.ListComp, ast.SetComp, ast.GeneratorExp, ast.DictComp)):
            return self.ev(e, frozenset(bound))
        fields = {}
        for f, v in ast.iter_fields(e):
            if isinstance(v, ast.expr):
                fields[f] = self._subst(v, bound)
            elif isinstance(v, list) and v and all(x is None or isinstance(x, ast.AST) for x in v):
                fields[f] = [self._subst(x, bound) if isinstance(x, ast.expr) else
                             (self._rebuild(x, {"value": self._subst(x.value, bound)}) if isinstance(x, ast.keyword) else x) for x in v]
        return self._rebuild(e, fields)

    @staticmethod
    def _rebuild(e, fields):
        changed = False
        for f, v in fields.items():
            old = getattr(e, f)
            if isinstance(v, list):
                if len(v) != len(old) or any(a is not b for a, b in zip(v, old)):
                    changed = True
            elif v is not old:
                changed = True
        if not changed:
            return e
        kw = {f: v for f, v in ast.iter_fields(e)}
        kw.update(fields)
        n = type(e)(**kw)
        return ast.copy_location(n, e)

    def _fold(self, e):
        """Value-preserving simplifications of displays: [a] + [b], [*[a], b], list((a, b)), getattr(x, 'name')."""
        if isinstance(e, ast.BinOp) and isinstance(e.op, ast.Add):
            if isinstance(e.left, ast.List) and isinstance(e.right, ast.List):
                return ast.copy_location(ast.List(elts=e.left.elts + e.right.elts, ctx=ast.Load()), e)
            if isinstance(e.left, ast.Tuple) and isinstance(e.right, ast.Tuple):
                return ast.copy_location(ast.Tuple(elts=e.left.elts + e.right.elts, ctx=ast.Load()), e)
        if isinstance(e, (ast.List, ast.Tuple)) and any(isinstance(x, ast.Starred) and isinstance(x.value, (ast.List, ast.Tuple)) for x in e.elts):
            elts = []
            for x in e.elts:
                if isinstance(x, ast.Starred) and isinstance(x.value, (ast.List, ast.Tuple)):
                    elts.extend(x.value.elts)
                else:
                    elts.append(x)
            return ast.copy_location(type(e)(elts=elts, ctx=ast.Load()), e)
        if isinstance(e, ast.Call) and isinstance(e.func, ast.Name) and not e.keywords and len(e.args) == 1:
            if e.func.id == "list" and isinstance(e.args[0], (ast.List, ast.Tuple)) and e.func.id not in self.env:
                return ast.copy_location(ast.List(elts=list(e.args[0].elts), ctx=ast.Load()), e)
            if e.func.id == "tuple" and isinstance(e.args[0], (ast.List, ast.Tuple)):
                return ast.copy_location(ast.Tuple(elts=list(e.args[0].elts), ctx=ast.Load()), e)
        if _is_len(e) and isinstance(e.args[0], ast.Constant) and isinstance(e.args[0].value, (bytes, str)):
            return ast.copy_location(ast.Constant(value=len(e.args[0].value)), e)
        # dict displays: dict() / dict({..}) / {**{..}, k: v} / {..} | {..} are the display with the later entry winning
        if isinstance(e, ast.Call) and isinstance(e.func, ast.Name) and e.func.id == "dict" and "dict" not in self.env and not e.keywords \
                and (not e.args or (len(e.args) == 1 and isinstance(e.args[0], ast.Dict))):
            return ast.copy_location(ast.Dict(keys=list(e.args[0].keys), values=list(e.args[0].values)) if e.args else ast.Dict(keys=[], values=[]), e)
        if isinstance(e, ast.Dict) and any(k is None and isinstance(v, ast.Dict) and all(k2 is not None for k2 in v.keys) for k, v in zip(e.keys, e.values)):
            d = ast.Dict(keys=[], values=[])
            for k, v in zip(e.keys, e.values):
                if k is None and isinstance(v, ast.Dict) and all(k2 is not None for k2 in v.keys):
                    for k2, v2 in zip(v.keys, v.values):
                        d = _dict_set(d, k2, v2)
                elif k is None:
                    d = ast.Dict(keys=d.keys + [None], values=d.values + [v])
                else:
                    d = _dict_set(d, k, v)
            return ast.copy_location(d, e)
        if isinstance(e, ast.BinOp) and isinstance(e.op, ast.BitOr) and isinstance(e.left, ast.Dict) and isinstance(e.right, ast.Dict) \
                and all(k is not None for k in e.left.keys + e.right.keys):
            d = e.left
            for k, v in zip(e.right.keys, e.right.values):
                d = _dict_set(d, k, v)
            return ast.copy_location(d, e)
        if isinstance(e, ast.Call) and isinstance(e.func, ast.Name) and e.func.id == "getattr" and len(e.args) == 2 and not e.keywords \
                and isinstance(e.args[1], ast.Constant) and isinstance(e.args[1].value, str) and e.args[1].value.isidentifier():
            return ast.copy_location(ast.Attribute(value=e.args[0], attr=e.args[1].value, ctx=ast.Load()), e)
        if isinstance(e, ast.Subscript) and isinstance(e.value, (ast.Tuple, ast.List)) and isinstance(e.slice, ast.Constant) and isinstance(e.slice.value, int) \
                and not any(isinstance(x, ast.Starred) for x in e.value.elts) and -len(e.value.elts) <= e.slice.value < len(e.value.elts):
            return e.value.elts[e.slice.value]
        return e

    # ---- truth ---------------------------------------------------------------------------
    @staticmethod
    def _const_truth(e):
        if isinstance(e, ast.Constant):
            return bool(e.value)
        if isinstance(e, (ast.List, ast.Tuple, ast.Set)) and not any(isinstance(x, ast.Starred) for x in e.elts):
            return bool(e.elts)
        if isinstance(e, ast.Dict):
            return bool(e.keys)
        if isinstance(e, ast.Compare) and len(e.ops) == 1 and isinstance(e.left, ast.Constant) and isinstance(e.comparators[0], ast.Constant):
            a, b, op = e.left.value, e.comparators[0].value, e.ops[0]
            if isinstance(op, (ast.Is, ast.Eq)) and (a is None or b is None or type(a) is type(b)):
                return (a is b) if (a is None or b is None) else a == b
            if isinstance(op, (ast.IsNot, ast.NotEq)) and (a is None or b is None or type(a) is type(b)):
                return (a is not b) if (a is None or b is None) else a != b
        if isinstance(e, ast.Compare) and len(e.ops) == 1 and isinstance(e.ops[0], (ast.Eq, ast.NotEq, ast.Is, ast.IsNot)) \
                and chain(e.left) is not None and chain(e.left) == chain(e.comparators[0]):
            # the same name / attribute chain read twice with nothing in between (the heap model replaces a chain that was stored to)
            return isinstance(e.ops[0], (ast.Eq, ast.Is))
        return None

    def truthv(self, e, tag=""):
        """Truth of an evaluated expression on this path (decides, hence may fork)."""
        if isinstance(e, ast.UnaryOp) and isinstance(e.op, ast.Not):
            return not self.truthv(e.operand, tag)
        if isinstance(e, ast.BoolOp):
            is_or = isinstance(e.op, ast.Or)
            for v in e.values:
                if self.truthv(v, tag) == is_or:
                    return is_or
            return not is_or
        if isinstance(e, ast.IfExp):
            return self.truthv(e.body, tag) if self.truthv(e.test, tag) else self.truthv(e.orelse, tag)
        c = self._const_truth(e)
        if c is None:
            d = self.decide(e)
            if isinstance(d, bool):
                c = d
            else:
                k, pol = d if d is not None else atom_key(e)
                c = self.choose(k + tag) == pol
        self.path.conds.append((e, c, self.nid))
        return c

    # ---- statements ------------------------------------------------------------------------
    def _bind(self, tgt, v, stmt):
        if isinstance(tgt, ast.Name):
            self.env[tgt.id] = v
        elif isinstance(tgt, (ast.Tuple, ast.List)):
            starred = any(isinstance(x, ast.Starred) for x in tgt.elts)
            if isinstance(v, (ast.Tuple, ast.List)) and not starred and len(v.elts) == len(tgt.elts) and not any(isinstance(x, ast.Starred) for x in v.elts):
                for t, x in zip(tgt.elts, v.elts):
                    self._bind(t, x, stmt)
            else:
                for i, t in enumerate(tgt.elts):
                    if isinstance(t, ast.Starred):
                        self._bind(t.value, sym("rest of %s" % txt(v)[:40]), stmt)
                    else:
                        self._bind(t, ast.Subscript(value=v, slice=ast.Constant(value=i), ctx=ast.Load()), stmt)
        elif isinstance(tgt, ast.Attribute):
            t2 = ast.Attribute(value=self.ev(tgt.value), attr=tgt.attr, ctx=ast.Load())
            self.path.events.append(("store", t2, v, stmt))
            c = chain(t2)
            if c is not None:
                # a later read of the same chain on this path sees the stored value (until an arbitrary call intervenes)
                for k in [k for k in self.heap if k.startswith(c + ".")]:
                    del self.heap[k]
                self.heap[c] = v
        elif isinstance(tgt, ast.Subscript):
            base = tgt.value
            idx = self.ev(tgt.slice)
            if isinstance(base, ast.Name) and isinstance(self.env.get(base.id), ast.Dict) and not isinstance(idx, ast.Slice):
                self.env[base.id] = _dict_set(self.env[base.id], idx, v)
                return
            if isinstance(base, ast.Name) and isinstance(self.env.get(base.id), ast.List):
                lst = self.env[base.id]
                if isinstance(idx, ast.Constant) and isinstance(idx.value, int) and 0 <= idx.value < len(lst.elts) \
                        and not any(isinstance(x, ast.Starred) for x in lst.elts[:idx.value + 1]):
                    elts = list(lst.elts)
                    elts[idx.value] = v
                    self.env[base.id] = ast.List(elts=elts, ctx=ast.Load())
                else:
                    self.env[base.id] = sym("list modified at %s" % txt(idx)[:30])
                return
            self.path.events.append(("store", ast.Subscript(value=self.ev(base), slice=idx, ctx=ast.Load()), v, stmt))
        else:
            raise AnalysisError("C11 path runner: unsupported assignment target in %s" % self.fi.short)

    def _list_call(self, call):
        """Model L.append / extend / insert on a local that holds a list display; other mutators make it opaque."""
        f = call.func
        if not (isinstance(f, ast.Attribute) and isinstance(f.value, ast.Name)):
            return False
        cur = self.env.get(f.value.id)
        name = f.value.id
        if isinstance(cur, ast.List) and f.attr in LIST_MUTATORS:
            args = [self.ev(a) for a in call.args]
            if f.attr == "append" and len(args) == 1 and not call.keywords:
                self.env[name] = ast.List(elts=cur.elts + [args[0]], ctx=ast.Load())
            elif f.attr == "extend" and len(args) == 1 and not call.keywords:
                a = args[0]
                more = list(a.elts) if isinstance(a, (ast.List, ast.Tuple)) else [ast.Starred(value=a, ctx=ast.Load())]
                self.env[name] = ast.List(elts=cur.elts + more, ctx=ast.Load())
            elif f.attr == "insert" and len(args) == 2 and isinstance(args[0], ast.Constant) and isinstance(args[0].value, int) \
                    and 0 <= args[0].value <= len(cur.elts) and not any(isinstance(x, ast.Starred) for x in cur.elts[:args[0].value]):
                elts = list(cur.elts)
                elts.insert(args[0].value, args[1])
                self.env[name] = ast.List(elts=elts, ctx=ast.Load())
            else:
                self.env[name] = sym("list after .%s()" % f.attr)
            return True
        if isinstance(cur, ast.Dict) and f.attr in DICT_MUTATORS:
            args = [self.ev(a) for a in call.args]
            kws = [(k.arg, self.ev(k.value)) for k in call.keywords]
            new = None
            if f.attr == "update" and len(args) <= 1 and all(k is not None for k, _ in kws) and (not args or (isinstance(args[0], ast.Dict) and all(k is not None for k in args[0].keys))):
                new = cur
                pairs = (list(zip(args[0].keys, args[0].values)) if args else []) + [(ast.Constant(value=k), v) for k, v in kws]
                for k, v in pairs:
                    new = _dict_set(new, k, v)
            elif f.attr == "setdefault" and len(args) == 2 and not kws:
                new = cur if any(k is not None and same_val(k, args[0]) for k in cur.keys) else _dict_set(cur, args[0], args[1])
            self.env[name] = new if new is not None else sym("dict after .%s()" % f.attr)
            return True
        return False

    def _exec(self, node):
        st = node.ast
        if node.kind == "stmt":
            if isinstance(st, ast.Assign):
                v = self.ev(st.value)
                for t in st.targets:
                    self._bind(t, v, st)
            elif isinstance(st, ast.AnnAssign):
                if st.value is not None:
                    self._bind(st.target, self.ev(st.value), st)
            elif isinstance(st, ast.AugAssign):
                if isinstance(st.target, ast.Name):
                    cur = self.env.get(st.target.id, st.target)
                    cur = ast.Name(id=st.target.id, ctx=ast.Load()) if cur is st.target else cur
                    v = self._fold(ast.copy_location(ast.BinOp(left=cur, op=st.op, right=self.ev(st.value)), st))
                    if isinstance(cur, ast.List) and isinstance(st.op, ast.Add) and not isinstance(v, ast.List):
                        r = v.right
                        more = list(r.elts) if isinstance(r, (ast.Tuple, ast.List)) else [ast.Starred(value=r, ctx=ast.Load())]
                        v = ast.List(elts=cur.elts + more, ctx=ast.Load())
                    self.env[st.target.id] = v
                else:
                    load = self.ev(_as_load(st.target))
                    self._bind(st.target, ast.copy_location(ast.BinOp(left=load, op=st.op, right=self.ev(st.value)), st), st)
            elif isinstance(st, ast.Expr):
                v = st.value
                if isinstance(v, ast.Constant):
                    return  # docstring
                if isinstance(v, ast.Call) and self._list_call(v):
                    return
                if isinstance(v, ast.Call) and self.on_mutating_call(v):
                    return
                self.path.events.append(("call", self.ev(v), st))
            elif isinstance(st, ast.Delete):
                for t in st.targets:
                    if self.on_delete(t):
                        continue
                    if isinstance(t, ast.Name):
                        self.env[t.id] = sym("deleted %s" % t.id)
                    elif isinstance(t, ast.Subscript) and isinstance(t.value, ast.Name) and isinstance(self.env.get(t.value.id), (ast.List, ast.Dict)):
                        self.env[t.value.id] = sym("%s after del" % t.value.id)
                    else:
                        self.path.events.append(("del", self.ev(_as_load(t)), st))
            elif isinstance(st, (ast.FunctionDef, ast.AsyncFunctionDef, ast.ClassDef)):
                self.env[st.name] = sym("def %s" % st.name)
            # assert is never a guard; pass / global / import have no effect on values
        elif node.kind == "with":
            for it in st.items:
                v = self.ev(it.context_expr)
                if it.optional_vars is not None:
                    self._bind(it.optional_vars, ast.Call(func=ast.Attribute(value=v, attr="__enter__", ctx=ast.Load()), args=[], keywords=[]), st)
        elif node.kind == "handler":
            if st.name:
                self.env[st.name] = sym("exc")

    @staticmethod
    def _written_in(stmts):
        out = set()
        for s in stmts:
            for n in ast.walk(s):
                if isinstance(n, ast.Name) and isinstance(n.ctx, (ast.Store, ast.Del)):
                    out.add(n.id)
                elif isinstance(n, ast.Call) and isinstance(n.func, ast.Attribute) and isinstance(n.func.value, ast.Name) and n.func.attr in (LIST_MUTATORS | DICT_MUTATORS | {"add", "discard"}):
                    out.add(n.func.value.id)
                elif isinstance(n, ast.Subscript) and isinstance(n.ctx, (ast.Store, ast.Del)) and isinstance(n.value, ast.Name):
                    out.add(n.value.id)
        return out

    def _exc_class(self, e):
        if e is None:
            return None
        if isinstance(e, ast.Call):
            e = e.func
        c = chain(e)
        return c.split(".")[-1] if c else None

    def _catches(self, h, cls):
        if h.type is None:
            return True
        names = h.type.elts if isinstance(h.type, ast.Tuple) else [h.type]
        for t in names:
            c = chain(t)
            last = c.split(".")[-1] if c else None
            if last in ("Exception", "BaseException"):
                return True
            if cls is None:
                continue
            if last == cls or last in BUILTIN_BASES.get(cls, ()):
                return True
            if self.prog is not None and c:
                try:
                    a = self.prog.resolve_in_module(self.fi.module, cls)
                    b = self.prog.resolve_in_module(self.fi.module, c)
                    if a in self.prog.classes and self.prog.is_subclass(a, b):
                        return True
                except Exception:
                    pass
        return False

    def _exc_target(self, nid, cls):
        for d, lab in self.cfg.succ[nid]:
            if lab != "exc":
                continue
            n = self.cfg.nodes[d]
            if n.kind == "handler":
                if self._catches(n.ast, cls):
                    return d
            else:
                return d  # finally copy or rexit
        return self.cfg.rexit

    def _run(self, script):
        cfg = self.cfg
        self.script = script
        self.env = self._make_env()
        self.heap = self._make_heap()
        self.path = p = self._make_path()
        self.state = p.state = self.new_state()
        visits = {}
        iters = {}
        pending = None
        nid = cfg.entry
        steps = 0
        while True:
            steps += 1
            if steps > 5000:
                raise AnalysisError("C11 path runner: runaway path in %s" % self.fi.short)
            self.nid = nid
            node = cfg.nodes[nid]
            p.nodes.append(nid)
            if nid == cfg.exit:
                p.end = p.end or "fall"
                break
            if nid == cfg.rexit:
                p.end = "raise"
                p.exc = pending
                break
            succ = cfg.succ[nid]
            normal = [(d, l) for d, l in succ if l != "exc"]
            if nid in self.stop_at:
                st = node.ast
                val = getattr(st, "value", None) if isinstance(st, (ast.Assign, ast.AnnAssign, ast.AugAssign, ast.Expr, ast.Return)) else (st if isinstance(st, ast.expr) else None)
                try:
                    p.value = self.ev(val) if val is not None else None
                except PyRaise:
                    p.value = None
                p.end = "stop"
                p.endnode = st
                break
            if node.kind == "handler":
                pending = None
                p.value = p.endnode = None
            try:
                if node.kind == "test":
                    tag = ""
                    if isinstance(node.stmt, ast.While):
                        n = visits.get(id(node.stmt), 0)
                        if n >= 2:
                            want = "F"
                            nxt = [d for d, l in normal if l == want]
                            if not nxt:
                                p.end = "cut"
                                break
                            self._havoc(node.stmt.body)
                            nid = nxt[0]
                            continue
                        tag = " @%s%d#%d" % (self.keytag, nid, n)
                    c = self.truthv(self.ev(node.ast), tag)
                    nid = [d for d, l in normal if l == ("T" if c else "F")][0]
                    continue
                if node.kind == "for":
                    k = visits.get(nid, 0)
                    visits[nid] = k + 1
                    st = node.ast
                    if k == 0:
                        iters[nid] = self.iter_view(self.ev(st.iter))
                    it = iters[nid]
                    lit = isinstance(it, (ast.List, ast.Tuple)) and not any(isinstance(x, ast.Starred) for x in it.elts) and self.unroll and len(it.elts) <= 8
                    if lit:
                        go = k < len(it.elts)
                        if go:
                            self._bind(st.target, it.elts[k], st)
                    else:
                        go = k < self.for_iters and self.choose("for@%s%d%s" % (self.keytag, nid, "#%d" % k if k else ""))
                        if go:
                            self._bind(st.target, ast.Subscript(value=it, slice=sym("i" if k == 0 else "i+%d" % k), ctx=ast.Load()), st)
                        elif k > 0:
                            self._havoc(st.body)
                    nid = [d for d, l in normal if l == ("T" if go else "F")][0]
                    continue
                if node.kind == "join" and node.label == "while":
                    visits[id(node.ast)] = visits.get(id(node.ast), 0) + 1
                if node.kind == "return":
                    p.value = self.ev(node.ast.value) if node.ast.value is not None else ast.Constant(value=None)
                    p.end = "return"
                    p.endnode = node.ast
                elif node.kind == "raise":
                    p.value = self.ev(node.ast.exc) if node.ast.exc is not None else None
                    p.endnode = node.ast
                    pending = self._exc_class(node.ast.exc)
                    nid = self._exc_target(nid, pending)
                    continue
                else:
                    self._exec(node)
            except PyRaise as pr:
                pending = pr.cls
                p.endnode = pr.node if pr.node is not None else node.ast
                nid = self._exc_target(nid, pr.cls)
                continue
            if not normal:
                if pending is not None and succ:
                    nid = self._exc_target(nid, pending)
                    continue
                p.end = p.end or "fall"
                break
            nid = normal[0][0]
        p.env = dict(self.env)
        return p

    def _havoc(self, body):
        for v in self._written_in(body):
            self.env[v] = sym("loop:%s" % v)


def _dict_set(d, key, v):
    keys, vals = list(d.keys), list(d.values)
    for i, k in enumerate(keys):
        if k is not None and same_val(k, key):
            vals[i] = v
            break
    else:
        keys.append(key)
        vals.append(v)
    return ast.Dict(keys=keys, values=vals)


def _as_load(t):
    if isinstance(t, ast.Attribute):
        return ast.Attribute(value=t.value, attr=t.attr, ctx=ast.Load())
    if isinstance(t, ast.Subscript):
        return ast.Subscript(value=t.value, slice=t.slice, ctx=ast.Load())
    if isinstance(t, ast.Name):
        return ast.Name(id=t.id, ctx=ast.Load())
    return t


def _single_atom(p):
    """name of the atom when the polynomial is exactly one atom, else None"""
    ats = p.atoms()
    if len(ats) == 1:
        a = next(iter(ats))
        if p == Poly.atom(a):
            return a
    return None


# ---------------------------------------------------------------------------
# evaluation of a small classifier over a finite domain of named constants

class ConcreteRunner(Runner):
    """Runs a function with some parameters bound to *concrete* values of a finite domain that the rule defines
    (`value_of(e)` -> hashable value of an evaluated expression or None; `global_value(name)` / `attr_value(e)` -> the
    defining expression of a module-level name / class-level attribute that holds a table, or None).  Everything that is
    decidable over such values is decided: `==`/`!=`/`is`/`is not` between two concrete values, `in`/`not in` a display or a
    dict display whose elements / keys are concrete, `D[k]`, `D.get(k[, d])`, `D.items()/.keys()/.values()`, iteration over
    a dict display, comprehensions / generator expressions over a display (unrolled), `next(display[, default])`,
    `any(..)`/`all(..)` of a display of constants.  So an if-chain, a `match`, a table, a loop over the known members
    comparing one of their fields, `next(s for s in members if ...)` are all the same function: the rule looks at what is
    *returned for each argument*, not at how the function finds it.  Conditions that are not decidable stay uninterpreted
    (both outcomes are explored), so a verdict over all returning paths is an over-approximation of the function."""

    def __init__(self, fi, prog, binding, value_of, global_value=None, attr_value=None):
        super().__init__(fi, prog=prog, fork_values=True)
        self.binding = dict(binding)
        self.value_of = value_of
        self.global_value = global_value or (lambda name: None)
        self.attr_value = attr_value or (lambda e: None)
        self._globals_busy = set()

    def initial_env(self):
        return self.binding

    @staticmethod
    def _display(e):
        if isinstance(e, (ast.List, ast.Tuple, ast.Set)) and not any(isinstance(x, ast.Starred) for x in e.elts):
            return list(e.elts)
        return None

    def iter_view(self, it):
        if isinstance(it, ast.Dict) and all(k is not None for k in it.keys):
            return ast.Tuple(elts=list(it.keys), ctx=ast.Load())
        if isinstance(it, ast.Set) and self._display(it) is not None:
            return ast.Tuple(elts=list(it.elts), ctx=ast.Load())
        return it

    def _foreign(self, expr):
        """Evaluate the defining expression of a module-level / class-level constant (outside the function's locals)."""
        saved, self.env = self.env, {}
        try:
            return self.ev(expr)
        finally:
            self.env = saved

    def ev(self, e, bound=frozenset()):
        if isinstance(e, ast.Name) and isinstance(e.ctx, ast.Load) and e.id not in bound and e.id not in self.env and e.id not in self._globals_busy:
            g = self.global_value(e.id)
            if g is not None:
                self._globals_busy.add(e.id)
                try:
                    return self._foreign(g)
                finally:
                    self._globals_busy.discard(e.id)
        if isinstance(e, (ast.ListComp, ast.SetComp, ast.GeneratorExp, ast.DictComp)) and not bound and len(e.generators) == 1 and not e.generators[0].is_async:
            g = e.generators[0]
            elts = self._display(self.iter_view(self.ev(g.iter)))
            if elts is not None and len(elts) <= 16:
                targets = {x.id for x in ast.walk(g.target) if isinstance(x, ast.Name)}
                saved = {k: self.env[k] for k in targets if k in self.env}
                out = []
                try:
                    for el in elts:
                        self._bind(g.target, el, None)
                        if all(self.truthv(self.ev(c)) for c in g.ifs):
                            out.append((self.ev(e.key), self.ev(e.value)) if isinstance(e, ast.DictComp) else self.ev(e.elt))
                finally:
                    for k in targets:
                        self.env.pop(k, None)
                    self.env.update(saved)
                if isinstance(e, ast.DictComp):
                    d = ast.Dict(keys=[], values=[])
                    for k, v in out:
                        d = _dict_set(d, k, v)
                    return ast.copy_location(d, e)
                if isinstance(e, ast.SetComp):
                    return ast.copy_location(ast.Set(elts=out), e)
                return ast.copy_location(ast.List(elts=out, ctx=ast.Load()), e)
        return super().ev(e, bound)

    def _dict_lookup(self, d, key):
        """('hit', value) | ('miss',) | None when not decidable"""
        if not isinstance(d, ast.Dict) or any(k is None for k in d.keys):
            return None
        kv = self.value_of(key)
        vals = [self.value_of(k) for k in d.keys]
        if kv is None or any(v is None for v in vals):
            return None
        hit = None
        for v, x in zip(vals, d.values):
            if v == kv:
                hit = x  # a later duplicate key wins, as in a dict display
        return ("hit", hit) if hit is not None else ("miss",)

    def eval_hook(self, e):
        if isinstance(e, ast.Attribute):
            a = self.attr_value(e)
            return self._foreign(a) if a is not None else None
        if isinstance(e, ast.Compare) and len(e.ops) == 1:
            l, op, r = e.left, e.ops[0], e.comparators[0]
            if isinstance(op, (ast.Eq, ast.NotEq, ast.Is, ast.IsNot)):
                a, b = self.value_of(l), self.value_of(r)
                if a is not None and b is not None:
                    return ast.Constant(value=(a == b) == isinstance(op, (ast.Eq, ast.Is)))
            if isinstance(op, (ast.In, ast.NotIn)):
                a = self.value_of(l)
                elts = self._display(self.iter_view(r))
                if a is not None and elts is not None:
                    vals = [self.value_of(x) for x in elts]
                    if all(v is not None for v in vals):
                        return ast.Constant(value=(a in vals) == isinstance(op, ast.In))
            return None
        if isinstance(e, ast.Subscript) and not isinstance(e.slice, ast.Slice):
            r = self._dict_lookup(e.value, e.slice)
            if r is not None:
                if r[0] == "miss":
                    raise PyRaise("KeyError")
                return r[1]
            return None
        if isinstance(e, ast.Call):
            f = e.func
            if isinstance(f, ast.Attribute) and isinstance(f.value, ast.Dict) and not e.keywords and all(k is not None for k in f.value.keys):
                d = f.value
                if f.attr == "get" and 1 <= len(e.args) <= 2:
                    r = self._dict_lookup(d, e.args[0])
                    if r is not None:
                        return r[1] if r[0] == "hit" else (e.args[1] if len(e.args) == 2 else ast.Constant(value=None))
                if not e.args and f.attr == "items":
                    return ast.Tuple(elts=[ast.Tuple(elts=[k, v], ctx=ast.Load()) for k, v in zip(d.keys, d.values)], ctx=ast.Load())
                if not e.args and f.attr == "keys":
                    return ast.Tuple(elts=list(d.keys), ctx=ast.Load())
                if not e.args and f.attr == "values":
                    return ast.Tuple(elts=list(d.values), ctx=ast.Load())
            if isinstance(f, ast.Name) and f.id not in self.env and not e.keywords:
                if f.id in ("next", "any", "all", "iter", "tuple", "list") and e.args:
                    elts = self._display(self.iter_view(e.args[0]))
                    if elts is not None:
                        if f.id == "next" and len(e.args) <= 2:
                            if elts:
                                return elts[0]
                            if len(e.args) == 2:
                                return e.args[1]
                            raise PyRaise("StopIteration")
                        if f.id in ("any", "all") and len(e.args) == 1 and all(isinstance(x, ast.Constant) for x in elts):
                            return ast.Constant(value=(any if f.id == "any" else all)(bool(x.value) for x in elts))
                        if f.id == "iter" and len(e.args) == 1:
                            return ast.Tuple(elts=elts, ctx=ast.Load())
                if f.id == "dict" and len(e.args) == 1:
                    if isinstance(e.args[0], ast.Dict):
                        return e.args[0]
                    pairs = self._display(e.args[0])
                    if pairs is not None and all(self._display(x) is not None and len(x.elts) == 2 for x in pairs):
                        d = ast.Dict(keys=[], values=[])
                        for x in pairs:
                            d = _dict_set(d, x.elts[0], x.elts[1])
                        return d
        return None


# ---------------------------------------------------------------------------
# integer facts

def nf_lt(p):
    """normal form of p < 0"""
    return ("lt", p)


def nf_ge0(p):
    """normal form of p >= 0 (integers): -p - 1 < 0"""
    return ("lt", -p - Poly.const(1))


def entails_lt0(facts, want):
    """Some fact p < 0 implies want < 0: want - p is a constant <= 0."""
    for f in facts:
        if f[0] != "lt":
            continue
        d = (want - f[1]).const_value()
        if d is not None and d <= 0:
            return True
    return False


def entails_ge0(facts, want):
    """Do the integer facts (set of ('lt', p) meaning p < 0) contain one that implies want >= 0?  A fact p < 0 says
    g = -p - 1 >= 0; it implies want >= 0 when want - g is a non-negative constant."""
    for f in facts:
        if f[0] != "lt":
            continue
        g = -f[1] - Poly.const(1)
        d = (want - g).const_value()
        if d is not None and d >= 0:
            return True
    return False


# ---------------------------------------------------------------------------
# FlowRunner: the path runner with local calls executed (used by C11.i).
#
# It works on the module *as written* (RawWorld re-parses the source the program was loaded from), not on the engine's
# canonical form: the clause it serves is about which value a name holds when a call is made, and that is exactly what a
# helper's default argument (evaluated when the `def` / `lambda` is executed), a closure variable (read when the helper
# runs), functools.partial (arguments evaluated when the partial is made) and a plain parameter differ in.  Callables are
# values: a nested def, a lambda, functools.partial of either or of a bound method, a method of the same class called
# through self, a function of the same module.  Calling one executes its body on the current path (one activation per
# call, decisions shared with the caller's path), with Python's binding rules:
#   * default expressions are evaluated once, where the def / lambda is executed;
#   * a free variable of a nested function denotes the enclosing activation's variable at the time of the call
#     (ScopeEnv falls back to the live environment of the definer; `nonlocal` writes go there);
#   * names assigned in the callee are its own.
# Every call through an attribute (`x.m(...)`) that is not executed is recorded as ('ecall', call, fi) with evaluated
# receiver and arguments.


class ScopeEnv(dict):
    def __init__(self, parent, local_names, nonlocal_names=()):
        dict.__init__(self)
        self.parent = parent
        self.local_names = set(local_names)
        self.nonlocal_names = set(nonlocal_names)

    def _outer(self, k):
        return self.parent is not None and k not in self.local_names

    def __contains__(self, k):
        return dict.__contains__(self, k) or (self._outer(k) and k in self.parent)

    def __getitem__(self, k):
        if dict.__contains__(self, k):
            return dict.__getitem__(self, k)
        if self._outer(k):
            return self.parent[k]
        raise KeyError(k)

    def get(self, k, default=None):
        try:
            return self[k]
        except KeyError:
            return default

    def __setitem__(self, k, v):
        if k in self.nonlocal_names and self.parent is not None:
            self.parent[k] = v
        else:
            dict.__setitem__(self, k, v)


class Closure:
    """A callable value.  node: FunctionDef / AsyncFunctionDef / Lambda (None for a partial of a foreign callable);
    fi: the FuncInfo to execute (enclosing one for a lambda); env: environment of the definer (None: module level);
    defaults / kwdefaults: parameter name -> value evaluated at definition; pre_args / pre_kw: bound by partial (or self);
    target: the evaluated foreign callable of a partial."""

    def __init__(self, node, fi, env, defaults, pre_args=(), pre_kw=None, target=None):
        self.node, self.fi, self.env, self.defaults = node, fi, env, defaults
        self.pre_args, self.pre_kw, self.target = list(pre_args), dict(pre_kw or {}), target

    def partial(self, args, kw):
        k2 = dict(self.pre_kw)
        k2.update(kw)
        return Closure(self.node, self.fi, self.env, self.defaults, self.pre_args + list(args), k2, self.target)


def closure_of(v):
    return getattr(v, "_closure", None) if isinstance(v, ast.Name) else None


def _own_nodes(fnode):
    body = fnode.body if isinstance(fnode.body, list) else [fnode.body]
    for st in body:
        yield from walk_no_nested(st)


def _memo_on_node(fn):
    def wrapped(fnode):
        cache = fnode.__dict__.setdefault("_c11_memo", {})
        if fn.__name__ not in cache:
            cache[fn.__name__] = fn(fnode)
        return cache[fn.__name__]
    wrapped.__name__ = fn.__name__
    wrapped.__doc__ = fn.__doc__
    return wrapped


@_memo_on_node
def local_names_of(fnode):
    a = fnode.args
    names = {x.arg for x in a.posonlyargs + a.args + a.kwonlyargs}
    if a.vararg:
        names.add(a.vararg.arg)
    if a.kwarg:
        names.add(a.kwarg.arg)
    outer = set()
    for n in _own_nodes(fnode):
        if isinstance(n, ast.Name) and isinstance(n.ctx, (ast.Store, ast.Del)):
            names.add(n.id)
        elif isinstance(n, (ast.FunctionDef, ast.AsyncFunctionDef, ast.ClassDef)):
            names.add(n.name)
        elif isinstance(n, ast.ExceptHandler) and n.name:
            names.add(n.name)
        elif isinstance(n, (ast.Import, ast.ImportFrom)):
            for al in n.names:
                names.add((al.asname or al.name).split(".")[0])
        elif isinstance(n, (ast.Nonlocal, ast.Global)):
            outer.update(n.names)
    return names - outer, outer


@_memo_on_node
def is_generator(fnode):
    return any(isinstance(n, (ast.Yield, ast.YieldFrom)) for n in _own_nodes(fnode))


@_memo_on_node
def is_simple_body(fnode):
    """A short straight-line / if-only function: always worth executing."""
    if isinstance(fnode, ast.Lambda):
        return True
    k = 0
    for n in _own_nodes(fnode):
        if isinstance(n, (ast.For, ast.AsyncFor, ast.While, ast.Try, ast.With, ast.AsyncWith, ast.Match)) or (hasattr(ast, "TryStar") and isinstance(n, ast.TryStar)):
            return False
        if isinstance(n, ast.stmt):
            k += 1
    return k <= 15


class RawModule:
    def __init__(self, mod, make_fi):
        self.mod = mod
        self.funcs = {}    # module-level function name -> FuncInfo
        self.classes = {}  # class name -> (ClassDef, {method name: FuncInfo}, [base names])
        self._scope(mod.tree.body, make_fi)

    def _scope(self, body, make_fi):
        for st in body:
            if isinstance(st, (ast.FunctionDef, ast.AsyncFunctionDef)):
                self.funcs.setdefault(st.name, make_fi(self.mod, st, None, None))
            elif isinstance(st, ast.ClassDef):
                methods = {}
                for s2 in st.body:
                    if isinstance(s2, (ast.FunctionDef, ast.AsyncFunctionDef)):
                        methods.setdefault(s2.name, make_fi(self.mod, s2, st.name, None))
                self.classes.setdefault(st.name, (st, methods, [b.id for b in st.bases if isinstance(b, ast.Name)]))
            elif isinstance(st, (ast.If, ast.Try)):
                for sub in ("body", "orelse", "finalbody"):
                    self._scope(getattr(st, sub, []) or [], make_fi)
                for h in getattr(st, "handlers", []) or []:
                    self._scope(h.body, make_fi)

    def method(self, clsname, name, seen=()):
        if clsname not in self.classes or clsname in seen:
            return None
        _, methods, bases = self.classes[clsname]
        if name in methods:
            return methods[name]
        for b in bases:
            m = self.method(b, name, seen + (clsname,))
            if m is not None:
                return m
        return None

    def all_functions(self):
        out = list(self.funcs.values())
        for _, methods, _ in self.classes.values():
            out.extend(methods.values())
        return out


class RawWorld:
    """The modules of the program as written (parsed again from the source text the program was loaded from, i.e. including a
    self-test seed), indexed by name: module-level functions, classes and their methods."""

    def __init__(self, prog):
        from ..model import Module, FuncInfo
        self.prog = prog
        self._Module, self._FuncInfo = Module, FuncInfo
        self._mods = {}

    def _make_fi(self, mod, node, clsname, parent):
        if parent is not None:
            qn = parent.qn + ".<locals>." + node.name
        else:
            qn = mod.name + ("." + clsname if clsname else "") + "." + node.name
        fi = self._FuncInfo(qn, node, mod, None, parent)
        fi.rawcls = clsname if parent is None else None
        return fi

    def nested_fi(self, parent, node):
        cache = parent.__dict__.setdefault("_nested_fi", {})
        if id(node) not in cache:
            cache[id(node)] = self._make_fi(parent.module, node, None, parent)
        return cache[id(node)]

    def module(self, name):
        if name not in self._mods:
            m = self.prog.modules[name]
            raw = self._Module(m.name, m.path, m.src, m.is_pkg)
            raw.imports = m.imports
            self._mods[name] = RawModule(raw, self._make_fi)
        return self._mods[name]

    def of(self, fi):
        return self.module(fi.module.name)


def _selfname(fi):
    """Name of the receiver parameter of a plain method (None for functions, static and class methods)."""
    top = fi
    while top.parent is not None:
        top = top.parent
    if getattr(top, "rawcls", None) is None:
        return None
    deco = [chain(d) or "" for d in top.node.decorator_list]
    if "staticmethod" in deco or "classmethod" in deco:
        return None
    a = top.node.args
    ps = a.posonlyargs + a.args
    return ps[0].arg if ps else None


class FlowRunner(Runner):
    def __init__(self, fi, prog, world, interesting=None, top=None, parent_env=None, bound=None, **kw):
        """interesting(fnode) -> bool: a helper that must be executed (the clause's effect sites are inside); other helpers are
        executed when they are short and loop-free, and stay opaque calls otherwise."""
        Runner.__init__(self, fi, prog, **kw)
        self.world = world
        self.top = top or self
        self.interesting = interesting if top is None else top.interesting
        self.parent_env = parent_env
        self.bound = bound
        if top is None:
            self.selfname = _selfname(fi)
            self.topcls = fi.rawcls if fi.parent is None else None
            t = fi
            while t.parent is not None:
                t = t.parent
            self.topcls = getattr(t, "rawcls", None)
            self.ncalls = 0
            self.depth = 0
            self._dig_memo = {}
            self._dig_table = {}
            self.executed = set()  # id(def node) of every helper executed on some path

    # ---- decision keys ----------------------------------------------------------------------
    # The same normalisation as paths.atom_key (negations, != / is not / not in, mirrored operands, >= are the same atom), but over
    # interned structure numbers instead of the source text of the evaluated condition: the values of this runner are deeply nested
    # expressions with shared sub-terms, and printing them for every test dominates the run time.
    def _dig(self, e):
        top = self.top
        memo, table = top._dig_memo, top._dig_table
        hit = memo.get(id(e))
        if hit is not None and hit[0] is e:
            return hit[1]
        if isinstance(e, ast.AST):
            parts = [type(e).__name__]
            for f in e._fields:
                if f in ("ctx", "type_comment", "kind"):
                    continue
                parts.append(self._dig(getattr(e, f, None)))
            key = tuple(parts)
        elif isinstance(e, list):
            key = ("[]",) + tuple(self._dig(x) for x in e)
        else:
            key = ("v", type(e).__name__, repr(e))
        n = table.setdefault(key, len(table))
        if isinstance(e, ast.AST):
            memo[id(e)] = (e, n)
        return n

    def decide(self, cond):
        e, pol = cond, True
        while isinstance(e, ast.UnaryOp) and isinstance(e.op, ast.Not):
            e, pol = e.operand, not pol
        d = self._dig
        if isinstance(e, ast.Compare) and len(e.ops) == 1:
            op, l, r = e.ops[0], e.left, e.comparators[0]
            if isinstance(op, (ast.Eq, ast.NotEq, ast.Is, ast.IsNot)):
                a, b = sorted([d(l), d(r)])
                return "E%d,%d" % (a, b), pol == isinstance(op, (ast.Eq, ast.Is))
            if isinstance(op, (ast.In, ast.NotIn)):
                if isinstance(r, (ast.Tuple, ast.List, ast.Set)):
                    k = "I%d{%s}" % (d(l), ",".join(str(x) for x in sorted(d(x) for x in r.elts)))
                else:
                    k = "I%d,%d" % (d(l), d(r))
                return k, pol == isinstance(op, ast.In)
            if isinstance(op, ast.Lt):
                return "L%d,%d" % (d(l), d(r)), pol
            if isinstance(op, ast.Gt):
                return "L%d,%d" % (d(r), d(l)), pol
            if isinstance(op, ast.GtE):
                return "L%d,%d" % (d(l), d(r)), not pol
            if isinstance(op, ast.LtE):
                return "L%d,%d" % (d(r), d(l)), not pol
        return "T%d" % d(e), pol

    # ---- environments shared along the path -------------------------------------------
    def _make_env(self):
        if self.top is self:
            self.ncalls = 0
            self.depth = 0
            return dict(self.initial_env())
        loc, outer = local_names_of(self.fi.node)
        env = ScopeEnv(self.parent_env, loc, outer if self.parent_env is not None else ())
        for k, v in self.bound.items():
            dict.__setitem__(env, k, v)
        return env

    def _make_heap(self):
        return {} if self.top is self else self.top.heap

    def _make_path(self):
        p = RPath()
        if self.top is not self:
            tp = self.top.path
            p.events, p.conds, p.facts = tp.events, tp.conds, tp.facts
        return p

    # ---- callables as values -------------------------------------------------------------
    def _closure_sym(self, text, clo):
        s = sym(text)
        s._closure = clo
        return s

    def _defaults(self, a):
        pos = [x.arg for x in a.posonlyargs + a.args]
        d = {}
        for name, e in zip(pos[len(pos) - len(a.defaults):], a.defaults):
            d[name] = self.ev(e)
        for k, e in zip(a.kwonlyargs, a.kw_defaults):
            if e is not None:
                d[k.arg] = self.ev(e)
        return d

    def ev(self, e, bound=frozenset()):
        if isinstance(e, ast.Lambda) and not bound:
            return self._closure_sym("lambda@%d:%d" % (e.lineno, e.col_offset), Closure(e, self.fi, self.env, self._defaults(e.args)))
        return Runner.ev(self, e, bound)

    def _exec(self, node):
        st = node.ast
        if node.kind == "stmt" and isinstance(st, (ast.FunctionDef, ast.AsyncFunctionDef)) and not st.decorator_list:
            fi = self.world.nested_fi(self.fi, st)
            self.env[st.name] = self._closure_sym("def %s" % st.name, Closure(st, fi, self.env, self._defaults(st.args)))
            return
        Runner._exec(self, node)

    def _resolve(self, call):
        """The Closure an evaluated call goes to, or None."""
        f = call.func
        clo = closure_of(f)
        if clo is not None:
            return clo
        top = self.top
        rm = self.world.of(self.fi)
        if isinstance(f, ast.Attribute) and isinstance(f.value, ast.Name) and top.selfname is not None and f.value.id == top.selfname and top.topcls is not None \
                and top.selfname not in top.env:
            m = rm.method(top.topcls, f.attr)
            if m is not None and not m.node.decorator_list:
                return Closure(m.node, m, None, None, pre_args=[f.value])
        if isinstance(f, ast.Name) and f.id not in self.env and f.id in rm.funcs and not rm.funcs[f.id].node.decorator_list:
            m = rm.funcs[f.id]
            return Closure(m.node, m, None, None)
        return None

    def _is_partial(self, call):
        c = chain(call.func)
        if c is None or c.split(".")[0] in self.env:
            return False
        try:
            return self.prog.resolve_in_module(self.fi.module, c) == "functools.partial"
        except Exception:
            return False

    def eval_hook(self, e):
        if not isinstance(e, ast.Call):
            return None
        if self._is_partial(e) and e.args and not any(isinstance(a, ast.Starred) for a in e.args) and all(k.arg is not None for k in e.keywords):
            inner = closure_of(e.args[0])
            kw = {k.arg: k.value for k in e.keywords}
            if inner is None:
                tmp = ast.Call(func=e.args[0], args=[], keywords=[])
                inner = self._resolve(tmp) or Closure(None, None, None, None, target=e.args[0])
            return self._closure_sym("partial@%d:%d" % (e.lineno, e.col_offset), inner.partial(e.args[1:], kw))
        clo = self._resolve(e)
        if clo is not None:
            r = self._call(clo, e)
            if r is not None:
                return r
        if isinstance(e.func, ast.Attribute):
            self.path.events.append(("ecall", e, self.fi))
        return None

    def _must_run(self, fnode):
        return fnode is not None and self.interesting is not None and self.interesting(fnode)

    def _call(self, clo, call):
        if any(isinstance(a, ast.Starred) for a in call.args) or any(k.arg is None for k in call.keywords):
            return self._opaque(clo, "the call uses * / **")
        args = clo.pre_args + list(call.args)
        kw = dict(clo.pre_kw)
        for k in call.keywords:
            kw[k.arg] = k.value
        if clo.node is None:
            # partial of a foreign callable: the call it stands for, made now with the arguments bound then
            c2 = ast.copy_location(ast.Call(func=clo.target, args=args, keywords=[ast.keyword(arg=k, value=v) for k, v in kw.items()]), call)
            r = self.eval_hook(c2)
            return r if r is not None else c2
        fn = clo.node
        a = fn.args
        if a.vararg or a.kwarg:
            return self._opaque(clo, "the helper takes * / **")
        names = [x.arg for x in a.posonlyargs + a.args]
        kwonly = [x.arg for x in a.kwonlyargs]
        if len(args) > len(names):
            return self._opaque(clo, "too many arguments")
        bound = dict(zip(names, args))
        for k, v in kw.items():
            if k in bound or k not in names + kwonly:
                return self._opaque(clo, "unexpected keyword %s" % k)
            bound[k] = v
        defaults = clo.defaults
        if defaults is None:
            # a method / module-level function: its defaults were evaluated at import (no local of the analysed function is visible there)
            defaults = {}
            pos = names
            for name, d in zip(pos[len(pos) - len(a.defaults):], a.defaults):
                defaults[name] = d
            for k, d in zip(a.kwonlyargs, a.kw_defaults):
                if d is not None:
                    defaults[k.arg] = d
        for n in names + kwonly:
            if n not in bound:
                if n not in defaults:
                    return self._opaque(clo, "parameter %s unbound" % n)
                bound[n] = defaults[n]
        top = self.top
        if isinstance(fn, ast.Lambda):
            saved = self.env
            env = ScopeEnv(clo.env, set(bound))
            for k, v in bound.items():
                dict.__setitem__(env, k, v)
            self.env = env
            try:
                return self.ev(fn.body)
            finally:
                self.env = saved
        if is_generator(fn):
            return self._opaque(clo, "the helper is a generator")
        if not (self._must_run(fn) or is_simple_body(fn)):
            return None
        if top.depth >= 8:
            return self._opaque(clo, "helpers nested too deeply (recursion?)")
        top.ncalls += 1
        top.executed.add(id(fn))
        child = type(self)(clo.fi, self.prog, self.world, top=top, parent_env=clo.env, bound=bound, fork_values=self.fork_values,
                           max_paths=self.max_paths, unroll=self.unroll, for_iters=self.for_iters, keytag="c%d/" % top.ncalls)
        top.depth += 1
        saved_nid = self.nid
        try:
            p = child._run(self.script)
        finally:
            top.depth -= 1
            self.nid = saved_nid
        if p.end == "return":
            return p.value
        if p.end == "fall":
            return ast.copy_location(ast.Constant(value=None), call)
        if p.end == "raise":
            # (an explicit `raise` of the helper stays the end node of the caller's path: which activation raised is immaterial)
            raise PyRaise(p.exc, p.endnode if isinstance(p.endnode, ast.Raise) else None)
        raise AnalysisError("C11 flow runner: helper %s does not end normally on a path (%s)" % (clo.fi.short, p.end))

    def _opaque(self, clo, why):
        if self._must_run(clo.node):
            raise AnalysisError("C11 flow runner: cannot execute helper %s in %s: %s" % (getattr(clo.node, "name", "<lambda>"), self.fi.short, why))
        return None


# ---------------------------------------------------------------------------
# the reader of the OSCORE option: windows of the option bytes

REWRITE_METHODS = ("lstrip", "rstrip", "strip", "removeprefix", "removesuffix", "replace", "lower", "upper")


class OptionReader(FlowRunner):
    """Interprets _uncompress-like code: the first parameter P is a byte string; slices of it are *windows*
    (lo, hi) of P, indexing yields the byte atoms `B[i]`, `x & MASK` of a byte the atoms `B[i]&m`, lengths of windows
    are `len(P) - lo`.  All conditions over these become integer normal forms; everything else stays uninterpreted.

    Window arithmetic relies on Python's slice semantics: P[a:][x:] == P[a+x:] for non-negative a, x (saturating on both
    sides), P[a:][x:y] == P[a+x:a+y] when a+y <= len(P) (the bound every stored field is required to have by C11.h), and
    len(P[a:]) == len(P) - a when a <= len(P) (established by the same bounds checks; for a = 1 by the non-empty test).

    Local callables of the function -- a nested def (also one that advances a cursor through `nonlocal`), a lambda, a
    functools.partial of either -- are *executed* where they are called (FlowRunner: one activation per call with Python's
    binding rules, decisions, integer facts and byte reads shared with the caller's path), so a field that is cut by a local
    `take(n)` helper is the same window, behind the same decided bounds check, as one cut in line.  Nothing else is executed:
    methods and module-level functions are the engine's business (helper expansion) and stay opaque calls here."""

    def __init__(self, fi, prog, consts, P=None, **kw):
        top = kw.get("top")
        if top is not None:
            # an activation of a local helper (constructed by FlowRunner._call: the third positional argument is the world)
            FlowRunner.__init__(self, fi, prog, consts, **kw)
            self._share(top)
            return
        Runner.__init__(self, fi, prog=prog, fork_values=True)
        world = getattr(prog, "_c11_rawworld", None)
        if world is None:
            world = RawWorld(prog)
            setattr(prog, "_c11_rawworld", world)
        self.world, self.top, self.parent_env, self.bound = world, self, None, None
        self.interesting = lambda fnode: True  # a local helper that cannot be executed is a refusal, never an opaque value
        self.selfname = self.topcls = None
        self.ncalls = self.depth = 0
        self._dig_memo, self._dig_table, self.executed = {}, {}, set()
        self.consts = consts
        self.P = P
        self.LEN = Poly.atom("len(P)")

    def _share(self, top):
        self.consts, self.P, self.LEN = top.consts, top.P, top.LEN

    def _resolve(self, call):
        # local callables only (values of the running function: def / lambda / partial)
        return closure_of(call.func)

    def new_state(self):
        if self.top is not self:
            return self.top.state  # one state per path, shared by all activations
        return {"int_facts": set(), "empty": None, "reads": []}

    def eval_hook(self, e):
        if isinstance(e, ast.Call) and (closure_of(e.func) is not None or self._is_partial(e)):
            return FlowRunner.eval_hook(self, e)
        return None

    def _bind(self, tgt, v, stmt):
        if isinstance(tgt, (ast.Tuple, ast.List)) and not any(isinstance(x, ast.Starred) for x in tgt.elts) and not isinstance(v, (ast.Tuple, ast.List)):
            try:
                w = self.window(v)
            except AnalysisError:
                w = None
            if w is not None:
                # `(s,) = W` / `a, b = W` on a window of the option: Python raises ValueError unless len(W) is exactly the number
                # of targets -- a decision of the path like any length test; then the targets are the bytes W[0], W[1], ...
                d = self.winlen(w) - Poly.const(len(tgt.elts))
                if self._decide_nf(self._const_or(nf_lt(d))) or self._decide_nf(self._const_or(nf_lt(-d))):
                    raise PyRaise("ValueError")
        FlowRunner._bind(self, tgt, v, stmt)

    # -- single bytes read from the option
    def ev(self, e, bound=frozenset()):
        out = super().ev(e, bound)
        if isinstance(e, ast.Subscript) and not bound and isinstance(out, ast.Subscript) and not isinstance(out.slice, ast.Slice):
            self._byte_read(e, out)
        return out

    def _ge0(self, want):
        c = want.const_value()
        return c >= 0 if c is not None else entails_ge0(self.state["int_facts"], want)

    def _byte_read(self, site, out):
        """`W[i]` on a window W = P[lo:hi] of the option reads the byte P[lo+i]; it raises IndexError unless lo + i < len(P)
        (and, for a bounded window, lo + i < hi).  The read is a *decision* of the path like any test: where the integer facts
        known when the read is evaluated already imply it (a check that follows the read does not count) nothing happens; where
        they refute it the path continues as an IndexError; otherwise both outcomes are explored, the in-bounds one with the fact
        added.  Whichever local the window travelled through and whichever spelling established the fact (`not W`,
        `len(W) < 1`, `len(P) < 2 + n`, a merged check, `try: W[0] except IndexError`) is immaterial."""
        try:
            w = self.window(out.value)
        except AnalysisError:
            return
        if w is None:
            return
        i = self.intval(out.slice)
        # bytes, masked bytes and lengths are the atoms of this domain: all non-negative, so a polynomial without a negative
        # coefficient is non-negative
        if not (all(v >= 0 for v in i.t.values()) or self._ge0(i)):
            raise AnalysisError("C11: _uncompress indexes the option with something that may be negative: %s" % txt(out)[:80])
        pos = w[0] + i
        known = sorted(map(repr, self.state["int_facts"])) or "nothing"
        for bound in [self.LEN] + ([w[1]] if w[1] is not None else []):
            if not self._decide_nf(self._const_or(nf_lt(pos - bound))):
                self.state["reads"].append((site, False, "byte %r of the option is read where only this is known about its length: %s" % (pos, known)))
                raise PyRaise("IndexError")
        self.state["reads"].append((site, True, None))

    # -- windows and integers
    def window(self, e):
        """(lo, hi|None) for an evaluated expression denoting a slice of P, else None."""
        if isinstance(e, ast.Name) and e.id == self.P:
            return (Poly.const(0), None)
        if isinstance(e, ast.Constant) and e.value == b"":
            # the empty byte string: equal to every window of P on a path on which P is known to be empty
            if self.state["empty"] is True:
                return (Poly.const(0), Poly.const(0))
            return None
        if isinstance(e, ast.Subscript) and isinstance(e.slice, ast.Slice):
            w = self.window(e.value)
            if w is None:
                return None
            a, b = w
            sl = e.slice
            if sl.step is not None:
                raise AnalysisError("C11.d: _uncompress slices the option with a step")
            lo = self.intval(sl.lower) if sl.lower is not None else Poly.const(0)
            hi = self.intval(sl.upper) if sl.upper is not None else None
            for x in (lo, hi):
                if x is not None and x.const_value() is not None and x.const_value() < 0:
                    raise AnalysisError("C11.d: _uncompress slices the option from its end: %s" % txt(e))
            if hi is None:
                return (a + lo, b)
            if b is not None:
                raise AnalysisError("C11.d: _uncompress cuts a field out of an already bounded slice: %s" % txt(e))
            return (a + lo, a + hi)
        return None

    def rewrite_of(self, e):
        """(method, window expression, constant arguments) when the evaluated expression is a content-dependent rewrite of a
        slice of the option by a bytes method whose result is, for some contents, not the slice itself: the strip family and
        removeprefix / removesuffix with an absent or non-empty constant argument, replace / lower / upper.  (With an empty
        argument the strip family is the identity; that spelling is left to the caller's refusal.)"""
        if not (isinstance(e, ast.Call) and isinstance(e.func, ast.Attribute) and e.func.attr in REWRITE_METHODS and not e.keywords):
            return None
        if not all(isinstance(a, ast.Constant) and isinstance(a.value, (bytes, type(None))) for a in e.args):
            return None
        args = tuple(a.value for a in e.args)
        m = e.func.attr
        if m in ("lstrip", "rstrip", "strip") and not (len(args) == 0 or (len(args) == 1 and args[0] != b"")):
            return None
        if m in ("removeprefix", "removesuffix") and not (len(args) == 1 and args[0]):
            return None
        if m == "replace" and not (len(args) == 2 and args[0] and args[1] is not None and args[0] != args[1]):
            return None
        if m in ("lower", "upper") and args:
            return None
        base = e.func.value
        try:
            inner = self.window(base) is not None or self.rewrite_of(base) is not None
        except AnalysisError:
            inner = False
        return (m, base, args) if inner else None

    def winlen(self, w):
        """Length of the window P[lo:hi] (lo <= len(P) by the checks that precede every cut): len(P) - lo for an open one; for a
        bounded one hi - lo where the option is known to reach hi, len(P) - lo where it is known not to, and a decision of the
        path otherwise (`s = tail[:1]` followed by `if not s:` is a length check like any other)."""
        if w[1] is None:
            return self.LEN - w[0]
        if (w[1] - w[0]).const_value() == 0:
            return Poly.const(0)
        return (w[1] - w[0]) if self._decide_nf(self._const_or(nf_ge0(self.LEN - w[1]))) else (self.LEN - w[0])

    def intval(self, e):
        if isinstance(e, ast.Constant) and isinstance(e.value, int) and not isinstance(e.value, bool):
            return Poly.const(e.value)
        if isinstance(e, ast.Name) and e.id in self.consts:
            return Poly.const(self.consts[e.id])
        if isinstance(e, ast.Attribute) and chain(e) and chain(e).split(".")[-1] in self.consts and chain(e).split(".")[0] != self.P:
            return Poly.const(self.consts[chain(e).split(".")[-1]])
        if isinstance(e, ast.Subscript) and not isinstance(e.slice, ast.Slice):
            w = self.window(e.value)
            if w is not None:
                i = self.intval(e.slice)
                if i.const_value() is not None and i.const_value() < 0:
                    raise AnalysisError("C11.d: _uncompress indexes the option from its end: %s" % txt(e))
                if w[1] is not None and w[1] == w[0]:
                    raise AnalysisError("C11.d: _uncompress reads a byte of an empty slice: %s" % txt(e))
                return Poly.atom("B[%r]" % (w[0] + i,))
        if isinstance(e, ast.Call) and _is_len(e):
            w = self.window(e.args[0])
            if w is not None:
                return self.winlen(w)
        if isinstance(e, ast.UnaryOp) and isinstance(e.op, ast.USub):
            return -self.intval(e.operand)
        if isinstance(e, ast.BinOp):
            if isinstance(e.op, ast.BitAnd):
                l, r = self.intval(e.left), self.intval(e.right)
                lc, rc = l.const_value(), r.const_value()
                if lc is not None and rc is not None:
                    return Poly.const(int(lc) & int(rc))
                for x, c in ((l, rc), (r, lc)):
                    a = _single_atom(x)
                    if c is not None and a is not None and a.startswith("B[") and "&" not in a:
                        return Poly.const(0) if int(c) == 0 else Poly.atom("%s&%d" % (a, int(c)))
                raise AnalysisError("C11.d: _uncompress masks something that is not one byte of the option with a constant: %s" % txt(e))
            l, r = self.intval(e.left), self.intval(e.right)
            if isinstance(e.op, ast.Add):
                return l + r
            if isinstance(e.op, ast.Sub):
                return l - r
            if isinstance(e.op, ast.Mult):
                return l * r
        if isinstance(e, ast.Call) and isinstance(e.func, ast.Name) and e.func.id == "int" and len(e.args) == 1 and not e.keywords:
            return self.intval(e.args[0])
        if not any(isinstance(x, ast.Name) and (x.id == self.P or x.id.startswith("‹")) for x in ast.walk(e)):
            # an expression over module-level constants only (`_LIMITS[0]`, `MAX.bit_length() // 8`)
            try:
                v = consteval_ext(e, getattr(self.consts, "all", None) or self.consts)
            except (norm.NormError, TypeError, ValueError):
                v = None
            if isinstance(v, int) and not isinstance(v, bool):
                return Poly.const(v)
        raise norm.NormError("not an integer over the option bytes: %s" % txt(e))

    def is_intlike(self, e):
        try:
            self.intval(e)
            return True
        except norm.NormError:
            return False

    def decide(self, cond):
        while isinstance(cond, ast.Call) and isinstance(cond.func, ast.Name) and cond.func.id == "bool" and len(cond.args) == 1 and not cond.keywords:
            cond = cond.args[0]
        if isinstance(cond, ast.Compare) and len(cond.ops) == 1 and isinstance(cond.ops[0], (ast.In, ast.NotIn)) and self.is_intlike(cond.left):
            # membership of an option integer in a literal collection of integers / a range: the disjunction of the equalities
            # (resp. the conjunction of the two bounds), each decided like any comparison
            coll = cond.comparators[0]
            hit = None
            if isinstance(coll, (ast.Tuple, ast.List, ast.Set)) and all(self.is_intlike(x) for x in coll.elts):
                hit = False
                for x in coll.elts:
                    if self.decide(ast.Compare(left=cond.left, ops=[ast.Eq()], comparators=[x])):
                        hit = True
                        break
            elif isinstance(coll, ast.Call) and isinstance(coll.func, ast.Name) and coll.func.id == "range" and not coll.keywords and 1 <= len(coll.args) <= 2 \
                    and all(self.is_intlike(x) for x in coll.args):
                lo = coll.args[0] if len(coll.args) == 2 else ast.Constant(value=0)
                hit = bool(self.decide(ast.Compare(left=cond.left, ops=[ast.GtE()], comparators=[lo]))) \
                    and bool(self.decide(ast.Compare(left=cond.left, ops=[ast.Lt()], comparators=[coll.args[-1]])))
            if hit is not None:
                return hit == isinstance(cond.ops[0], ast.In)
        nf = self.cond_nf(cond)
        if nf is None:
            if self.rewrite_of(cond) is not None:
                # truthiness of a content-dependent rewrite of a slice of the option (`W.lstrip(b"\0")`): it depends on the
                # *values* of the bytes, which this domain does not model -- an uninterpreted decision of the path (both outcomes
                # are explored; neither says anything about lengths or flag bits, so no interpreted decision depends on it)
                return None
            if any(isinstance(x, ast.Name) and x.id == self.P for x in ast.walk(cond)):
                raise AnalysisError("C11.d: _uncompress branches on a condition over the option bytes that the rule cannot interpret: %s" % txt(cond))
            return None
        if not isinstance(nf, bool) and nf[0] in ("eq", "ne"):
            equal = not self._decide_nf(self._const_or(nf_lt(nf[1]))) and not self._decide_nf(self._const_or(nf_lt(-nf[1])))
            return equal == (nf[0] == "eq")
        return self._decide_nf(nf)

    def _decide_nf(self, nf):
        if isinstance(nf, bool):
            return nf
        facts = self.state["int_facts"]
        neg = nf_ge0(nf[1])
        if nf in facts or entails_lt0(facts, nf[1]):
            return True
        if neg in facts or entails_lt0(facts, neg[1]):
            return False
        # a comparison of one byte / masked byte with a constant that its range decides (`B & 7 > 7` is false, `B < 256` true)
        rng = self._range_of(nf[1])
        if rng is not None:
            if rng[1] < 0:
                return True
            if rng[0] >= 0:
                return False
        # canonical key: the textually smaller of the fact and its negation
        a, b = repr(nf), repr(neg)
        key, pol = (a, True) if a <= b else (b, False)
        v = self.choose("int:" + key) == pol
        facts.add(nf if v else neg)
        if nf == nf_lt(-self.LEN) or neg == nf_lt(-self.LEN):
            self.state["empty"] = (nf == nf_lt(-self.LEN)) != v
        return v

    @staticmethod
    def _range_of(p):
        """(min, max) of c1 * atom + c0 for a byte atom `B[i]` (0..255) or a masked byte `B[i]&m` (0..m), else None"""
        ats = p.atoms()
        if len(ats) != 1:
            return None
        a = next(iter(ats))
        if not a.startswith("B["):
            return None
        coef = p.t.get(((a, 1),))
        if coef is None or set(p.t) - {((a, 1),), ()}:
            return None
        top = 255
        if "]&" in a:
            try:
                top = int(a.rsplit("&", 1)[1])
            except ValueError:
                return None
        c0 = p.t.get((), 0)
        ends = (c0, coef * top + c0)
        return (min(ends), max(ends))

    def cond_nf(self, e):
        """('lt', p) (p < 0) for a condition over option integers, a bool when constant, None when not about the option."""
        try:
            if isinstance(e, ast.Compare) and len(e.ops) == 1:
                l, op, r = e.left, e.ops[0], e.comparators[0]
                wl, wr = self.window(l), self.window(r)
                if isinstance(op, (ast.Eq, ast.NotEq)) and (wl is not None or wr is not None):
                    other, w = (r, wl) if wl is not None else (l, wr)
                    if isinstance(other, ast.Constant) and other.value == b"":
                        ln = self.winlen(w)
                        res = nf_lt(ln - Poly.const(1))  # len == 0  <=>  len < 1
                        return self._const_or(res if isinstance(op, ast.Eq) else nf_ge0(res[1]))
                    return None
                if not (self.is_intlike(l) and self.is_intlike(r)):
                    return None
                a, b = self.intval(l), self.intval(r)
                if isinstance(op, ast.Lt):
                    return self._const_or(nf_lt(a - b))
                if isinstance(op, ast.Gt):
                    return self._const_or(nf_lt(b - a))
                if isinstance(op, ast.LtE):
                    return self._const_or(nf_lt(a - b - Poly.const(1)))
                if isinstance(op, ast.GtE):
                    return self._const_or(nf_lt(b - a - Poly.const(1)))
                if isinstance(op, (ast.Eq, ast.NotEq)):
                    # only against zero, for the non-negative quantities of this domain (bytes, masked bytes, lengths)
                    for x, y in ((a, b), (b, a)):
                        if y.const_value() == 0:
                            res = nf_lt(x - Poly.const(1))
                            return self._const_or(res if isinstance(op, ast.Eq) else nf_ge0(res[1]))
                    d = (a - b).const_value()
                    if d is not None:
                        return (d == 0) == isinstance(op, ast.Eq)
                    # a == b  <=>  not a < b and not b < a: two decisions of the path (`len(head) != 1`, `len(tail) == s`)
                    return ("eq" if isinstance(op, ast.Eq) else "ne", a - b)
                return None
            w = self.window(e)
            if w is not None:  # truthiness of a window: its length is positive
                ln = self.winlen(w)
                return self._const_or(nf_lt(-ln))
            if self.is_intlike(e):  # truthiness of a non-negative integer
                return self._const_or(nf_lt(-self.intval(e)))
        except norm.NormError:
            return None
        return None

    @staticmethod
    def _const_or(nf):
        c = nf[1].const_value()
        return (c < 0) if c is not None else nf


# ---------------------------------------------------------------------------
# module-level integer constants

def consteval_ext(e, env=None):
    """norm.consteval, plus the spellings module-level integer constants are also derived with: `N.bit_length()`,
    `N.bit_count()`, max / min / abs / divmod / pow / int over constants, a constant index into a constant tuple.  Raises
    norm.NormError like consteval."""
    import copy
    env = env or {}

    def ints(vals):
        return all(isinstance(v, int) and not isinstance(v, bool) for v in vals)

    class T(ast.NodeTransformer):
        def visit_Call(self, n):
            self.generic_visit(n)
            try:
                if isinstance(n.func, ast.Attribute) and n.func.attr in ("bit_length", "bit_count") and not n.args and not n.keywords:
                    v = norm.consteval(n.func.value, env)
                    if ints([v]):
                        return ast.copy_location(ast.Constant(value=getattr(v, n.func.attr)()), n)
                if isinstance(n.func, ast.Name) and n.func.id in ("max", "min", "abs", "divmod", "pow", "int") and n.func.id not in env and n.args and not n.keywords:
                    vals = [norm.consteval(a, env) for a in n.args]
                    if len(vals) == 1 and isinstance(vals[0], (tuple, list)) and n.func.id in ("max", "min"):
                        vals = list(vals[0])
                    if ints(vals) and not (n.func.id == "pow" and (len(vals) != 2 or not 0 <= vals[1] < 200)):
                        r = {"max": max, "min": min, "abs": abs, "divmod": divmod, "pow": pow, "int": int}[n.func.id](*vals)
                        return ast.copy_location(ast.Constant(value=r), n)
            except (norm.NormError, TypeError, ValueError, ZeroDivisionError):
                pass
            return n

        def visit_Subscript(self, n):
            self.generic_visit(n)
            try:
                if not isinstance(n.slice, ast.Slice):
                    seq, i = norm.consteval(n.value, env), norm.consteval(n.slice, env)
                    if isinstance(seq, (tuple, list)) and ints([i]) and -len(seq) <= i < len(seq) and ints([seq[i]]):
                        return ast.copy_location(ast.Constant(value=seq[i]), n)
            except norm.NormError:
                pass
            return n

    return norm.consteval(T().visit(copy.deepcopy(e)), env)


# ---------------------------------------------------------------------------
# the reader and the writer of the OSCORE option run on ONE concrete value (C11.j)

class ConcreteOptionReader(OptionReader):
    """_uncompress-like code executed on one concrete option value: the same interpretation as OptionReader (windows of the
    option, byte reads, masks, lengths), but every integer over the option is a number, so every condition over the option
    is decided by its value and exactly one path is run.  A read outside the option is the IndexError Python raises."""

    def __init__(self, fi, prog, consts, P=None, data=b"", **kw):
        super().__init__(fi, prog, consts, P, **kw)
        if kw.get("top") is None:
            self.data = bytes(data)
            self.LEN = Poly.const(len(self.data))

    def _share(self, top):
        super()._share(top)
        self.data = top.data

    def new_state(self):
        st = super().new_state()
        st["empty"] = len(self.data) == 0
        return st

    def intval(self, e):
        if isinstance(e, ast.Subscript) and not isinstance(e.slice, ast.Slice):
            w = self.window(e.value)
            if w is not None:
                pos = (w[0] + self.intval(e.slice)).const_value()
                hi = w[1].const_value() if w[1] is not None else len(self.data)
                if pos is None or hi is None or not 0 <= pos < min(hi, len(self.data)):
                    raise AnalysisError("C11.j: a byte outside the concrete option is used as a value: %s" % txt(e)[:80])
                return Poly.const(self.data[int(pos)])
        return super().intval(e)

    def _decide_nf(self, nf):
        if isinstance(nf, bool):
            return nf
        raise AnalysisError("C11.j: a condition over a concrete option did not evaluate to a constant: %r" % (nf,))

    def decide(self, cond):
        b = self.bytes_of(cond) if self.rewrite_of(cond) is not None else None
        if b is not None:
            return bool(b)  # the rewrite is computed on the concrete bytes (the analyser's own sample data)
        return super().decide(cond)

    def bytes_of(self, e):
        """the concrete bytes an evaluated expression denotes when it is a window of the option (or a bytes constant, or a
        content-dependent rewrite of either computed on the concrete bytes), else None"""
        if isinstance(e, ast.Constant) and isinstance(e.value, bytes):
            return e.value
        rw = self.rewrite_of(e)
        if rw is not None:
            b = self.bytes_of(rw[1])
            return getattr(b, rw[0])(*rw[2]) if b is not None else None
        w = self.window(e)
        if w is None:
            return None
        lo = w[0].const_value()
        hi = w[1].const_value() if w[1] is not None else len(self.data)
        if lo is None or hi is None:
            return None
        return self.data[int(lo):int(hi)]


# ---------------------------------------------------------------------------
# the writer of the OSCORE option: the map of unprotected fields being drained

FIELD_PREFIX = "F_"


class MapModel(Runner):
    """A map of COSE header fields that the analysed function drains / queries, modelled per key: present / absent is decided
    once per path when the key is first queried; `U.pop(K[, d])`, `U.get(K[, d])`, `U[K]`, `K in U`, `del U[K]`, truthiness,
    `len(U)` and comparison with `{}` are all the same queries on that state (pop and del remove the key; pop / [] / del of an
    absent key raise KeyError, which is routed to the matching handler).  The value of a present key K is the symbol F_<K>.
    `is_map(e)` says which evaluated expression denotes the map; `where` names the function in refusal messages."""

    def __init__(self, fi, prog, keyname, where, **kw):
        super().__init__(fi, prog=prog, **kw)
        self.keyname = keyname  # evaluated key expression -> 'COSE_KID' | None
        self.where = where

    def new_state(self):
        return {"had": {}, "cur": {}, "syms": {}, "nf": set(), "other": None, "epoch": 0, "lens": {}}

    def is_map(self, e):
        raise NotImplementedError

    # -- queries are evaluated where they are written ------------------------------------------
    # `K in U`, `K not in U`, `U == {}`, `bool(U)`, `not U` are *values* of the moment they are evaluated at: a flag
    # `has_k = K in U` that is tested again after `U.pop(K)` still says what it said when it was computed.  The generic
    # runner keeps an undecided condition as an expression and decides it when it is tested; for a query on the mutable map
    # that would read the state of the later moment.  So every boolean query on the map is decided (the path forks) as soon
    # as it is evaluated and replaced by its truth value; the decision is recorded in path.conds like any tested
    # condition.  `len(U)` stays symbolic, stamped with the state it was taken in: testing it after a removal is refused.
    def _is_bool_query(self, e):
        if isinstance(e, ast.Compare) and len(e.ops) == 1 and (self._is_U(e.left) or self._is_U(e.comparators[0])):
            return True
        if isinstance(e, ast.UnaryOp) and isinstance(e.op, ast.Not) and self._is_U(e.operand):
            return True
        if isinstance(e, ast.Call) and isinstance(e.func, ast.Name) and e.func.id == "bool" and len(e.args) == 1 and not e.keywords and self._is_U(e.args[0]):
            return True
        return False

    def ev(self, e, bound=frozenset()):
        out = super().ev(e, bound)
        if bound or out is None or not isinstance(out, (ast.Compare, ast.UnaryOp, ast.Call)):
            return out
        if _is_len(out) and self._is_U(out.args[0]):
            self.state["lens"][id(out)] = (self.state["epoch"], out)
            return out
        if self._is_bool_query(out):
            neg = isinstance(out, ast.UnaryOp)
            v = self.decide_map(out.operand if neg else (out.args[0] if isinstance(out, ast.Call) else out))
            if isinstance(v, bool):
                v = (not v) if neg else v
                self.path.conds.append((out, v, self.nid))
                return ast.copy_location(ast.Constant(value=v), out)
        return out

    def _removed(self, k):
        self.state["cur"][k] = False
        self.state["epoch"] += 1

    def _check_len_epoch(self, e):
        for x in ast.walk(e):
            if _is_len(x) and self._is_U(x.args[0]):
                rec = self.state["lens"].get(id(x))
                if rec is not None and rec[1] is x and rec[0] != self.state["epoch"]:
                    raise AnalysisError("%s tests the size of the map of unprotected fields as it was before fields were removed from it: %s" % (self.where, txt(e)[:80]))

    def _is_U(self, e):
        return self.is_map(e)

    def _key(self, e, what):
        k = self.keyname(e)
        if k is None:
            raise AnalysisError("%s accesses the map of unprotected fields with a key that is not a COSE_* constant (%s)" % (self.where, what))
        return k

    def has(self, k):
        s = self.state
        if k not in s["cur"]:
            v = self.choose("has:" + k)
            s["had"][k] = s["cur"][k] = v
        return s["cur"][k]

    def field(self, k):
        s = self.state["syms"]
        if k not in s:
            s[k] = ast.Name(id=FIELD_PREFIX + k, ctx=ast.Load())
        return s[k]

    def nonempty(self):
        s = self.state
        if any(s["cur"].values()):
            return True
        if s["other"] is None:
            s["other"] = self.choose("has:<other keys>")
        return s["other"]

    def eval_hook(self, e):
        if isinstance(e, ast.Call) and isinstance(e.func, ast.Attribute) and self._is_U(e.func.value):
            m = e.func.attr
            if m in ("pop", "get") and 1 <= len(e.args) <= 2 and not e.keywords:
                k = self._key(e.args[0], txt(e))
                if self.has(k):
                    if m == "pop":
                        self._removed(k)
                    return self.field(k)
                if len(e.args) == 2:
                    return e.args[1]
                if m == "get":
                    return ast.Constant(value=None)
                raise PyRaise("KeyError")
            raise AnalysisError("%s uses the map of unprotected fields in a way the rule cannot interpret: %s" % (self.where, txt(e)))
        if isinstance(e, ast.Subscript) and self._is_U(e.value):
            k = self._key(e.slice, txt(e))
            if self.has(k):
                return self.field(k)
            raise PyRaise("KeyError")
        if isinstance(e, ast.Call) and any(self._is_U(a) for a in list(e.args) + [kw.value for kw in e.keywords]):
            if _is_len(e) or (isinstance(e.func, ast.Name) and e.func.id == "bool") or _is_log(e):
                return None
            raise AnalysisError("%s hands the map of unprotected fields to other code: %s" % (self.where, txt(e)))
        return None

    def on_delete(self, t):
        if isinstance(t, ast.Subscript) and self._is_U(self.ev(t.value)):
            k = self._key(self.ev(t.slice), "del")
            if not self.has(k):
                raise PyRaise("KeyError")
            self._removed(k)
            return True
        return False

    def _bind(self, tgt, v, stmt):
        if isinstance(tgt, ast.Subscript) and self._is_U(self.ev(tgt.value)):
            raise AnalysisError("%s stores into the map of unprotected fields" % self.where)
        return super()._bind(tgt, v, stmt)

    def decide_map(self, e):
        """bool for a condition that is a query on the map, else None"""
        self._check_len_epoch(e)
        if isinstance(e, ast.Compare) and len(e.ops) == 1 and isinstance(e.ops[0], (ast.In, ast.NotIn)) and self._is_U(e.comparators[0]):
            v = self.has(self._key(e.left, txt(e)))
            return v == isinstance(e.ops[0], ast.In)
        if self._is_U(e):
            return self.nonempty()
        if isinstance(e, ast.Compare) and len(e.ops) == 1 and any(self._is_U(x) for x in (e.left, e.comparators[0])):
            other = e.comparators[0] if self._is_U(e.left) else e.left
            if isinstance(other, ast.Dict) and not other.keys and isinstance(e.ops[0], (ast.Eq, ast.NotEq)):
                return self.nonempty() == isinstance(e.ops[0], ast.NotEq)
            raise AnalysisError("%s compares the map of unprotected fields in a way the rule cannot interpret: %s" % (self.where, txt(e)))
        if isinstance(e, ast.Compare) and len(e.ops) == 1 and isinstance(e.ops[0], (ast.Is, ast.IsNot, ast.Eq, ast.NotEq)):
            for x, y in ((e.left, e.comparators[0]), (e.comparators[0], e.left)):
                if isinstance(x, ast.Name) and x.id.startswith(FIELD_PREFIX) and isinstance(y, ast.Constant) and y.value is None:
                    # A present field is never None: protect() stores byte strings, _uncompress stores slices of the option or
                    # the PRESENT_BUT_NO_VALUE_YET sentinel (C11.d decides exactly that).  This is what makes
                    # `pop(K, None) is None` / `get(K) is None` the same test as `K not in map`.
                    return isinstance(e.ops[0], (ast.IsNot, ast.NotEq))
        tv = truth_view(e, True)
        if tv is not None and self._is_U(tv[0]):
            return self.nonempty() == tv[1]
        if isinstance(e, ast.Compare) and any(_is_len(x) and self._is_U(x.args[0]) for x in ast.walk(e)):
            raise AnalysisError("%s compares len(<map of unprotected fields>) in a way the rule cannot interpret: %s" % (self.where, txt(e)))
        return None

    def decide(self, cond):
        return self.decide_map(cond)


class OptionWriter(MapModel):
    """Interprets _compress-like code: the MapModel for its map parameter U plus the arithmetic of the flag byte."""

    def __init__(self, fi, prog, consts, U, keyname):
        super().__init__(fi, prog, keyname, "C11.d: _compress", fork_values=True)
        self.consts = consts
        self.U = U

    def is_map(self, e):
        return isinstance(e, ast.Name) and e.id == self.U

    def _bind(self, tgt, v, stmt):
        if isinstance(tgt, ast.Name) and tgt.id == self.U:
            raise AnalysisError("C11.d: _compress rebinds the unprotected map")
        return super()._bind(tgt, v, stmt)

    # -- flag byte values: (base polynomial, or-ed constant bits)
    def flagval(self, e):
        if isinstance(e, ast.Constant) and isinstance(e.value, int) and not isinstance(e.value, bool):
            return (Poly.const(0), e.value)
        if isinstance(e, ast.Name) and e.id in self.consts:
            return (Poly.const(0), self.consts[e.id])
        if _is_len(e):
            a = e.args[0]
            if isinstance(a, ast.Constant) and isinstance(a.value, bytes):
                return (Poly.const(0), len(a.value))
            if isinstance(a, ast.Name) and a.id.startswith(FIELD_PREFIX):
                return (Poly.atom("len(%s)" % a.id), 0)
            return None
        if isinstance(e, ast.BinOp) and isinstance(e.op, (ast.BitOr, ast.Add)):
            l, r = self.flagval(e.left), self.flagval(e.right)
            if l is None or r is None:
                return None
            if l[0].const_value() != 0 and r[0].const_value() != 0:
                return None
            base = l[0] + r[0]
            if isinstance(e.op, ast.Add) and (l[1] & r[1] or (base.const_value() != 0 and (l[1] | r[1]) & 0b111)):
                # `+` is `|` only for disjoint bits; the non-constant part is the partial IV length, which is required to be
                # at most COMPRESSION_BITS_N on every returning path and so lives in the low three bits
                return None
            return (base, l[1] | r[1])
        return None

    def decide(self, cond):
        e = cond
        m = self.decide_map(e)
        if m is not None:
            return m
        tv = truth_view(e, True)
        # the flag byte (or any integer built like it): non-zero as soon as a constant bit is or-ed in
        sub = None
        if self.flagval(e) is not None:
            sub = (self.flagval(e), True)
        elif tv is not None:
            fv = self.flagval(tv[0])
            if fv is None and isinstance(tv[0], ast.Name) and tv[0].id.startswith(FIELD_PREFIX):
                fv = (Poly.atom("len(%s)" % tv[0].id), 0)  # a byte string is true when its length is non-zero
            if fv is not None:
                sub = (fv, tv[1])
        if sub is not None:
            fv, pol = sub
            if fv[1] != 0:
                return pol
            c = fv[0].const_value()
            if c is not None:
                return (c != 0) == pol
            v = self.choose("nz:%r" % (fv[0],))
            self.state["nf"].add(nf_lt(-fv[0]) if v else nf_lt(fv[0] - Poly.const(1)))
            return v == pol
        # integer comparisons (length limits)
        if isinstance(e, ast.Compare) and len(e.ops) == 1 and isinstance(e.ops[0], (ast.Lt, ast.Gt, ast.LtE, ast.GtE)):
            N = norm.Normalizer(penv={k: Poly.const(v) for k, v in self.consts.items()})
            try:
                nf = N.cmp(e)
            except norm.NormError:
                return None
            c = nf[1].const_value()
            if c is not None:
                return c < 0
            neg = N.negate(nf)
            a, b = repr(nf), repr(neg)
            key, pol = (a, True) if a <= b else (b, False)
            v = self.choose("int:" + key) == pol
            self.state["nf"].add(nf if v else neg)
            return v
        return None


class ConcreteOptionWriter(OptionWriter):
    """_compress-like code executed on one concrete map of fields {COSE key name: bytes}: presence is what the map says, a
    present field is its byte string (so lengths are numbers and every limit test is decided by its value); the first
    parameter (the protected header map, always {} in protect()) is the empty map."""

    def __init__(self, fi, prog, consts, U, keyname, fields, empty_params=()):
        super().__init__(fi, prog, consts, U, keyname)
        self.fields = dict(fields)
        self.empty_params = tuple(empty_params)

    def initial_env(self):
        return {n: ast.Dict(keys=[], values=[]) for n in self.empty_params}

    def new_state(self):
        st = super().new_state()
        st["other"] = False
        return st

    def has(self, k):
        s = self.state
        if k not in s["cur"]:
            s["had"][k] = s["cur"][k] = k in self.fields
        return s["cur"][k]

    def field(self, k):
        s = self.state["syms"]
        if k not in s:
            s[k] = ast.Constant(value=self.fields[k])
        return s[k]

    def concrete_bytes(self, e):
        """the byte string an evaluated bytes expression denotes, None when a part is not a constant"""
        parts = byte_parts(e)
        if parts is None:
            return None
        out = b""
        for kind, x in parts:
            if kind == "lit":
                out += x
            elif kind == "byte":
                fv = self.flagval(x)
                c = fv[0].const_value() if fv is not None else None
                if c is None or c != int(c) or not 0 <= (int(c) | fv[1]) < 256:
                    return None
                out += bytes([int(c) | fv[1]])
            else:
                return None
        return out


def byte_parts(e):
    """Decompose an evaluated bytes expression into parts: ('byte', expr) for bytes([x]) / bytes((x,)) / x.to_bytes(1, ..),
    ('field', name) for F_<K>, ('lit', b'..'); b'' vanishes; `+`, b''.join([...]) and bytes([a, b]) are concatenations.
    None when a part is not understood."""
    if isinstance(e, ast.BinOp) and isinstance(e.op, ast.Add):
        l, r = byte_parts(e.left), byte_parts(e.right)
        return None if l is None or r is None else l + r
    if isinstance(e, ast.Constant) and isinstance(e.value, bytes):
        return [] if not e.value else [("lit", e.value)]
    if isinstance(e, ast.Name) and e.id.startswith(FIELD_PREFIX):
        return [("field", e.id[len(FIELD_PREFIX):])]
    if isinstance(e, ast.Call) and isinstance(e.func, ast.Name) and e.func.id == "bytes" and not e.keywords:
        if not e.args:
            return []
        if len(e.args) == 1 and isinstance(e.args[0], (ast.List, ast.Tuple)) and not any(isinstance(x, ast.Starred) for x in e.args[0].elts):
            return [("byte", x) for x in e.args[0].elts]
        if len(e.args) == 1 and isinstance(e.args[0], ast.Name) and e.args[0].id.startswith(FIELD_PREFIX):
            return [("field", e.args[0].id[len(FIELD_PREFIX):])]
        return None
    if isinstance(e, ast.Call) and isinstance(e.func, ast.Attribute) and e.func.attr == "to_bytes" and e.args \
            and isinstance(e.args[0], ast.Constant) and e.args[0].value == 1:
        return [("byte", e.func.value)]
    if isinstance(e, ast.Call) and isinstance(e.func, ast.Attribute) and e.func.attr == "join" and isinstance(e.func.value, ast.Constant) and e.func.value.value == b"" \
            and len(e.args) == 1 and isinstance(e.args[0], (ast.List, ast.Tuple)) and not any(isinstance(x, ast.Starred) for x in e.args[0].elts):
        out = []
        for x in e.args[0].elts:
            p = byte_parts(x)
            if p is None:
                return None
            out += p
        return out
    return None


# ---------------------------------------------------------------------------
# values answered from state (C11.k): keyed reads of containers that outlive the activation

STORE_READS = ("get", "pop", "setdefault", "__getitem__")


class StateRunner(Runner):
    """The path runner for functions that may answer from a store that outlives the activation (`C[k]`, C an attribute chain
    rooted in self / cls or a module-level name).  Such a read can miss: where a KeyError would be caught inside the function
    (`try: return C[k]` / `except KeyError:`) the read is a decision of the path -- hit: the value is the read itself; miss:
    KeyError, routed to the handler -- so both the answering and the computing path are enumerated, like they are for the
    `k in C` / `C.get(k)` spellings."""

    def _is_state(self, e):
        c = state_chain(e)
        if c is None:
            return False
        if c.startswith("type("):
            return True
        root = c.split(".")[0]
        a = self.fi.node.args
        pnames = [x.arg for x in a.posonlyargs + a.args + a.kwonlyargs]
        if pnames and root == pnames[0] and "." in c and self.fi.cls is not None:
            return True
        return root not in pnames and root not in self.env and "." not in c and not root.startswith("‹")

    def decide(self, cond):
        # nothing is in a container that was created empty on this very path
        if isinstance(cond, ast.Compare) and len(cond.ops) == 1 and isinstance(cond.ops[0], (ast.In, ast.NotIn)) and isinstance(cond.comparators[0], ast.Dict) \
                and not cond.comparators[0].keys:
            return isinstance(cond.ops[0], ast.NotIn)
        return None

    def eval_hook(self, e):
        if isinstance(e, ast.Subscript) and not isinstance(e.slice, ast.Slice) and self._is_state(e.value):
            tgt = self._exc_target(self.nid, "KeyError")
            if tgt != self.cfg.rexit and self.cfg.nodes[tgt].kind == "handler":
                if not self.choose("hit:" + txt(e)[:120]):
                    raise PyRaise("KeyError")
        return None


def state_chain(e):
    """chain(e), also for an attribute chain on the class of an object: `type(x).a.b` -> 'type(x).a.b', `x.__class__.a` -> 'type(x).a'"""
    c = chain(e)
    if c is not None:
        parts = c.split(".")
        if len(parts) >= 3 and parts[1] == "__class__":
            return "type(%s).%s" % (parts[0], ".".join(parts[2:]))
        return c
    parts = []
    while isinstance(e, ast.Attribute):
        parts.append(e.attr)
        e = e.value
    if parts and isinstance(e, ast.Call) and isinstance(e.func, ast.Name) and e.func.id == "type" and len(e.args) == 1 and not e.keywords and isinstance(e.args[0], ast.Name):
        return "type(%s).%s" % (e.args[0].id, ".".join(reversed(parts)))
    return None


def store_read(v):
    """(container, key, call-or-subscript) when the evaluated value is read out of a keyed container (`C[k]`, `C.get(k[, d])`,
    `C.pop(k[, d])`, `C.setdefault(k, d)`), possibly behind constant indexing / attribute reads of the entry; else None."""
    while True:
        if isinstance(v, ast.Subscript) and not isinstance(v.slice, ast.Slice):
            if state_chain(v.value) is not None and not (isinstance(v.slice, ast.Constant) and isinstance(v.slice.value, int)):
                return v.value, v.slice, v
            v = v.value  # a constant index: a component of the entry
        elif isinstance(v, ast.Attribute):
            v = v.value
        elif isinstance(v, ast.Call) and isinstance(v.func, ast.Attribute) and v.func.attr in STORE_READS and v.args and state_chain(v.func.value) is not None:
            return v.func.value, v.args[0], v
        else:
            return None


def input_atoms(e, selfname, params):
    """The inputs an evaluated expression is computed from, as far as they are named: parameters of the function and
    first-level attributes of self (`self.x...`, hasattr / getattr(self, 'x')); 'self' itself when the object is used whole
    (as an argument, `id(self)`).  Calls through self (`self.m(..)`) are returned separately: [(method name, call)]."""
    atoms, calls = set(), []

    def visit(n, is_func=False):
        if isinstance(n, ast.Call):
            if _is_log(n):
                return
            f = n.func
            if isinstance(f, ast.Attribute) and isinstance(f.value, ast.Name) and f.value.id == selfname:
                calls.append((f.attr, n))
            elif isinstance(f, ast.Name) and f.id in ("hasattr", "getattr") and len(n.args) >= 2 and isinstance(n.args[0], ast.Name) and n.args[0].id == selfname \
                    and isinstance(n.args[1], ast.Constant) and isinstance(n.args[1].value, str):
                atoms.add("%s.%s" % (selfname, n.args[1].value))
                for a in n.args[2:]:
                    visit(a)
                return
            elif isinstance(f, ast.Name) and f.id == "isinstance":
                return
            else:
                visit(f, True)
            for a in list(n.args) + [k.value for k in n.keywords]:
                visit(a)
            return
        if isinstance(n, ast.Attribute):
            c = chain(n)
            if c is not None:
                parts = c.split(".")
                if parts[0] == selfname:
                    atoms.add("%s.%s" % (selfname, parts[1]))
                elif parts[0] in params:
                    atoms.add(parts[0])
                return
            visit(n.value)
            return
        if isinstance(n, ast.Name):
            if n.id == selfname:
                atoms.add(selfname)
            elif n.id in params:
                atoms.add(n.id)
            return
        for c in ast.iter_child_nodes(n):
            if isinstance(c, (ast.expr, ast.comprehension, ast.keyword)):
                visit(c)

    visit(e)
    return atoms, calls
