"""E2: statement-level control-flow graph with split branch edges, short-circuit
decomposition of tests, try/except/finally (finally bodies duplicated per
continuation kind), loops, match; dominators and path queries.
"""

import ast
from .model import AnalysisError, walk_no_nested

SIMPLE = (
    ast.Assign, ast.AnnAssign, ast.AugAssign, ast.Expr, ast.Delete, ast.Pass,
    ast.Global, ast.Nonlocal, ast.Import, ast.ImportFrom, ast.Assert,
    ast.FunctionDef, ast.AsyncFunctionDef, ast.ClassDef,
)


class Node:
    __slots__ = ("id", "kind", "ast", "label", "stmt")

    def __init__(self, id, kind, astnode=None, label="", stmt=None):
        self.id = id
        self.kind = kind  # entry exit rexit stmt test T F for with handler join case return raise
        self.ast = astnode
        self.label = label
        self.stmt = stmt  # owning statement for tests

    def __repr__(self):
        t = ""
        if self.ast is not None:
            try:
                t = " ".join(ast.unparse(self.ast).split())[:50]
            except Exception:
                t = type(self.ast).__name__
        return "<%d %s %s L%s>" % (self.id, self.kind, t, getattr(self.ast, "lineno", "?"))


class _Frame:
    def __init__(self, kind, **kw):
        self.kind = kind
        self.__dict__.update(kw)
        self.copies = {}


class CFG:
    def __init__(self, fnode):
        self.fnode = fnode
        self.nodes = []
        self.succ = {}
        self.pred = {}
        self.where = {}  # id(ast) -> [node ids]
        self.frames = []
        self.entry = self._new("entry")
        self.exit = self._new("exit")
        self.rexit = self._new("rexit")
        self.parent = {}
        for p in ast.walk(fnode):
            for c in ast.iter_child_nodes(p):
                self.parent[id(c)] = p
        body = fnode.body if not isinstance(fnode, ast.Lambda) else [ast.Return(value=fnode.body)]
        out = self._seq(body, {self.entry})
        self._link(out, self.exit)
        self._dom = None
        self._pdom = None

    # ---------------- construction -----------------
    def _new(self, kind, astnode=None, label="", stmt=None):
        n = Node(len(self.nodes), kind, astnode, label, stmt)
        self.nodes.append(n)
        self.succ[n.id] = []
        self.pred[n.id] = []
        if astnode is not None and kind not in ("T", "F"):
            self.where.setdefault(id(astnode), []).append(n.id)
        return n.id

    def _link(self, srcs, dst, label="next"):
        for s in srcs:
            if (dst, label) not in self.succ[s]:
                self.succ[s].append((dst, label))
                self.pred[dst].append((s, label))

    def _may_raise(self, astnode):
        if astnode is None:
            return False
        if isinstance(astnode, (ast.Pass, ast.Global, ast.Nonlocal, ast.FunctionDef, ast.AsyncFunctionDef, ast.ClassDef)):
            return False
        if self.frames:
            return True
        for n in walk_no_nested(astnode):
            if isinstance(n, (ast.Call, ast.Await, ast.Subscript, ast.Yield, ast.YieldFrom)):
                return True
        return isinstance(astnode, ast.Assert)

    def _stmt_node(self, kind, astnode, cur, stmt=None):
        n = self._new(kind, astnode, stmt=stmt)
        self._link(cur, n)
        if self._may_raise(astnode if kind != "for" else astnode.iter):
            self._propagate_exc({n}, len(self.frames))
        return n

    def _with_frames(self, frames, fn):
        saved = self.frames
        self.frames = frames
        try:
            return fn()
        finally:
            self.frames = saved

    def _propagate_exc(self, srcs, depth):
        label = "exc"
        for i in range(depth - 1, -1, -1):
            fr = self.frames[i]
            if fr.kind == "try":
                for h in fr.handlers:
                    self._link(srcs, h, label)
                if fr.catchall:
                    return
            elif fr.kind == "finally":
                if "exc" not in fr.copies:
                    j = self._new("join", label="finally(exc)")
                    fr.copies["exc"] = j
                    outer = self.frames[:i]
                    out = self._with_frames(outer, lambda: self._seq(fr.stmts, {j}))
                    # continue propagation from the end of this copy
                    self._with_frames(outer, lambda: self._propagate_exc(out, i))
                self._link(srcs, fr.copies["exc"], label)
                return
        self._link(srcs, self.rexit, label)

    def _jump(self, srcs, kind, depth=None):
        """return / break / continue through enclosing finally frames."""
        depth = len(self.frames) if depth is None else depth
        for i in range(depth - 1, -1, -1):
            fr = self.frames[i]
            if fr.kind == "finally":
                key = kind
                if key not in fr.copies:
                    j = self._new("join", label="finally(%s)" % kind)
                    fr.copies[key] = j
                    outer = self.frames[:i]
                    out = self._with_frames(outer, lambda: self._seq(fr.stmts, {j}))
                    self._with_frames(outer, lambda: self._jump(out, kind, i))
                self._link(srcs, fr.copies[key])
                return
            if fr.kind == "loop" and kind in ("break", "continue"):
                if kind == "break":
                    fr.breaks.update(srcs)
                else:
                    self._link(srcs, fr.head, "back")
                return
        if kind == "return":
            self._link(srcs, self.exit)
        else:
            raise AnalysisError("%s outside loop" % kind)

    def _cond(self, e, cur, stmt):
        """Short-circuit decomposition; returns (true_set, false_set)."""
        if isinstance(e, ast.BoolOp):
            if isinstance(e.op, ast.And):
                t, fs = cur, set()
                for v in e.values:
                    t, f = self._cond(v, t, stmt)
                    fs |= f
                return t, fs
            else:
                f, ts = cur, set()
                for v in e.values:
                    t, f = self._cond(v, f, stmt)
                    ts |= t
                return ts, f
        if isinstance(e, ast.UnaryOp) and isinstance(e.op, ast.Not):
            t, f = self._cond(e.operand, cur, stmt)
            return f, t
        if isinstance(e, ast.Constant) and e.value in (True, False) and isinstance(e.value, bool):
            return (set(cur), set()) if e.value else (set(), set(cur))
        if isinstance(e, ast.Compare) and len(e.ops) > 1:
            # a < b <= c  ==  a < b and b <= c  (the middle operands are evaluated once at run time, which
            # makes no difference for the facts a branch outcome establishes)
            parts = []
            left = e.left
            for op, right in zip(e.ops, e.comparators):
                c = ast.Compare(left=left, ops=[op], comparators=[right])
                ast.copy_location(c, e)
                self.parent[id(c)] = e
                parts.append(c)
                left = right
            t, fs = cur, set()
            for v in parts:
                t, f = self._cond(v, t, stmt)
                fs |= f
            return t, fs
        n = self._stmt_node("test", e, cur, stmt=stmt)
        t = self._new("T", e, stmt=stmt)
        f = self._new("F", e, stmt=stmt)
        self._link({n}, t, "T")
        self._link({n}, f, "F")
        return {t}, {f}

    def _seq(self, stmts, cur):
        for st in stmts:
            if not cur:
                # unreachable code: still build it (disconnected) so anchors resolve
                cur = set()
            cur = self._stmt(st, cur)
        return cur

    def _stmt(self, st, cur):
        if isinstance(st, SIMPLE):
            return {self._stmt_node("stmt", st, cur)}
        if isinstance(st, ast.Return):
            n = self._stmt_node("return", st, cur)
            self._jump({n}, "return")
            return set()
        if isinstance(st, ast.Raise):
            n = self._new("raise", st)
            self._link(cur, n)
            self._propagate_exc({n}, len(self.frames))
            return set()
        if isinstance(st, ast.Break):
            n = self._new("stmt", st)
            self._link(cur, n)
            self._jump({n}, "break")
            return set()
        if isinstance(st, ast.Continue):
            n = self._new("stmt", st)
            self._link(cur, n)
            self._jump({n}, "continue")
            return set()
        if isinstance(st, ast.If):
            t, f = self._cond(st.test, cur, st)
            self.where.setdefault(id(st), [])
            out = self._seq(st.body, t)
            out2 = self._seq(st.orelse, f) if st.orelse else f
            return out | out2
        if isinstance(st, ast.While):
            head = self._new("join", st, label="while")
            self._link(cur, head)
            fr = _Frame("loop", head=head, breaks=set())
            t, f = self._cond(st.test, {head}, st)
            self.frames.append(fr)
            out = self._seq(st.body, t)
            self.frames.pop()
            self._link(out, head, "back")
            out2 = self._seq(st.orelse, f) if st.orelse else f
            return out2 | fr.breaks
        if isinstance(st, (ast.For, ast.AsyncFor)):
            head = self._stmt_node("for", st, cur)
            t = self._new("T", st, stmt=st)
            f = self._new("F", st, stmt=st)
            self._link({head}, t, "T")
            self._link({head}, f, "F")
            fr = _Frame("loop", head=head, breaks=set())
            self.frames.append(fr)
            out = self._seq(st.body, {t})
            self.frames.pop()
            self._link(out, head, "back")
            out2 = self._seq(st.orelse, {f}) if st.orelse else {f}
            return out2 | fr.breaks
        if isinstance(st, (ast.With, ast.AsyncWith)):
            n = self._stmt_node("with", st, cur)
            return self._seq(st.body, {n})
        if isinstance(st, ast.Try) or (hasattr(ast, "TryStar") and isinstance(st, ast.TryStar)):
            return self._try(st, cur)
        if isinstance(st, ast.Match):
            return self._match(st, cur)
        raise AnalysisError("CFG: unsupported statement kind %s at line %s" % (type(st).__name__, getattr(st, "lineno", "?")))

    def _try(self, st, cur):
        self.where.setdefault(id(st), [])
        ffr = None
        if st.finalbody:
            ffr = _Frame("finally", stmts=st.finalbody)
            self.frames.append(ffr)
        hnodes = []
        catchall = False
        for h in st.handlers:
            hn = self._new("handler", h)
            hnodes.append(hn)
            if h.type is None:
                catchall = True
            else:
                names = [h.type] if not isinstance(h.type, ast.Tuple) else h.type.elts
                for t in names:
                    txt = ast.unparse(t)
                    if txt in ("BaseException",):
                        catchall = True
        tfr = _Frame("try", handlers=hnodes, catchall=catchall)
        self.frames.append(tfr)
        out = self._seq(st.body, cur)
        self.frames.pop()
        if st.orelse:
            out = self._seq(st.orelse, out)
        for h, hn in zip(st.handlers, hnodes):
            out |= self._seq(h.body, {hn})
        if ffr is not None:
            self.frames.pop()
            j = self._new("join", label="finally(normal)")
            self._link(out, j)
            out = self._seq(st.finalbody, {j})
        return out

    def _match(self, st, cur):
        subj = self._stmt_node("stmt", st, cur)
        cur = {subj}
        outs = set()
        for case in st.cases:
            pat = case.pattern
            irrefutable = (isinstance(pat, ast.MatchAs) and pat.pattern is None)
            if irrefutable and case.guard is None:
                outs |= self._seq(case.body, cur)
                cur = set()
                break
            if irrefutable:
                t, f = self._cond(case.guard, cur, st)
            else:
                test = self._case_test(st.subject, pat)
                n = self._new("test", test, stmt=st)
                self.where.setdefault(id(case), []).append(n)
                self._link(cur, n)
                tn = self._new("T", test, stmt=st)
                fn = self._new("F", test, stmt=st)
                self._link({n}, tn, "T")
                self._link({n}, fn, "F")
                t, f = {tn}, {fn}
                if case.guard is not None:
                    t, f2 = self._cond(case.guard, t, st)
                    f |= f2
            outs |= self._seq(case.body, t)
            cur = f
        return outs | cur

    def _case_test(self, subject, pat):
        """Synthesise a comparison expression equivalent to a simple pattern."""
        if isinstance(pat, ast.MatchSingleton):
            e = ast.Compare(left=subject, ops=[ast.Is()], comparators=[ast.Constant(value=pat.value)])
        elif isinstance(pat, ast.MatchValue):
            e = ast.Compare(left=subject, ops=[ast.Eq()], comparators=[pat.value])
        elif isinstance(pat, ast.MatchOr) and all(isinstance(p, (ast.MatchSingleton, ast.MatchValue)) for p in pat.patterns):
            elts = [ast.Constant(value=p.value) if isinstance(p, ast.MatchSingleton) else p.value for p in pat.patterns]
            e = ast.Compare(left=subject, ops=[ast.In()], comparators=[ast.Tuple(elts=elts, ctx=ast.Load())])
        else:
            e = ast.Call(func=ast.Name(id="__match__", ctx=ast.Load()), args=[subject, ast.Constant(value=ast.unparse(pat))], keywords=[])
        ast.copy_location(e, pat)
        ast.fix_missing_locations(e)
        return e

    # ---------------- queries -----------------
    def locate(self, astnode):
        """CFG nodes whose statement/test contains the given AST node."""
        n = astnode
        while n is not None:
            if id(n) in self.where and self.where[id(n)]:
                return list(self.where[id(n)])
            n = self.parent.get(id(n))
        return []

    def loc1(self, astnode):
        r = self.locate(astnode)
        if not r:
            raise AnalysisError("construct at line %s has no CFG node" % getattr(astnode, "lineno", "?"))
        return r[0]

    def reachable_from_entry(self):
        return self.reach({self.entry})

    def reach(self, srcs, avoid=(), skip_labels=(), include_src=False):
        """Nodes reachable from srcs by >=1 edge (or 0 if include_src), never
        entering a node in avoid nor following an edge whose label is in
        skip_labels."""
        avoid = set(avoid)
        seen = set()
        todo = list(srcs)
        if include_src:
            seen |= set(srcs)
        while todo:
            n = todo.pop()
            for d, lab in self.succ[n]:
                if lab in skip_labels or d in avoid or d in seen:
                    continue
                seen.add(d)
                todo.append(d)
        return seen

    def _compute_dom(self):
        # iterative dataflow on sets (graphs are small)
        reach = self.reach({self.entry}, include_src=True)
        allset = set(reach)
        dom = {n: set(allset) for n in reach}
        dom[self.entry] = {self.entry}
        order = sorted(reach)
        changed = True
        while changed:
            changed = False
            for n in order:
                if n == self.entry:
                    continue
                preds = [p for p, _ in self.pred[n] if p in reach]
                new = set(allset)
                for p in preds:
                    new &= dom[p]
                new.add(n)
                if new != dom[n]:
                    dom[n] = new
                    changed = True
        self._dom = dom

    def dominators(self, n):
        if self._dom is None:
            self._compute_dom()
        return self._dom.get(n, set())

    def dominates(self, a, b):
        return a in self.dominators(b)

    def is_reachable(self, n):
        if self._dom is None:
            self._compute_dom()
        return n in self._dom

    def guards(self, n):
        """[(test_expr, polarity, pseudo_node_id)] for every branch pseudo-node
        that dominates n, ordered by node id (construction order)."""
        out = []
        for d in sorted(self.dominators(n)):
            nd = self.nodes[d]
            if nd.kind in ("T", "F") and d != n:
                out.append((nd.ast, nd.kind == "T", d))
        return out

    def must_pass(self, src, through, to=None, skip_labels=("exc",)):
        """Every path src ->* to (default: normal exit) along non-exceptional
        edges passes a node in `through`.  True also when `to` is unreachable."""
        to = self.exit if to is None else to
        through = set(through)
        if src in through:
            return True
        r = self.reach({src}, avoid=through, skip_labels=skip_labels, include_src=True)
        return to not in r

    def exists_path(self, src, dst, avoid=(), skip_labels=()):
        return dst in self.reach({src}, avoid=avoid, skip_labels=skip_labels)

    def stmt_nodes(self):
        return [n for n in self.nodes if n.kind in ("stmt", "return", "raise", "test", "for", "with")]


def cfg_of(fi):
    c = getattr(fi, "_cfg", None)
    if c is None:
        c = fi._cfg = CFG(fi.node)
    return c
