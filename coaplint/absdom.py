"""E5: finite-domain abstract evaluation of dispatcher functions.

A tiny interpreter over the CFG of ONE function: the rule supplies an
environment for the few attributes that matter (message type symbol, code
integer, results of named helper calls), the interpreter follows the unique
path this valuation takes, updates tracked attributes on assignments, and
records the effect calls it passes.  Anything it cannot evaluate raises
AnalysisError (exit 2) -- it never guesses.
"""

import ast

from .model import AnalysisError, walk_no_nested, stmt_text
from .pat import chain, match, dump
from .cfg import cfg_of
from . import norm


class Unknown(Exception):
    pass


class Sym(str):
    """Symbolic enum member (CON, NON, ...)."""


class IntSet(frozenset):
    """Set of code integers with interval-like accessors (min, max)."""

    def as_interval(self):
        if not self:
            return None
        lo, hi = min(self), max(self)
        return (lo, hi) if len(self) == hi - lo + 1 else None


def _eval_code_pred(e, v, shift, consts, depth=0):
    """Evaluate a predicate over `self` (an int code) in the checker's own
    evaluator: comparisons (chained), and/or/not, conditional expressions,
    membership in constant tuples, `self.class_`, `bool(...)`."""
    if depth > 20:
        raise AnalysisError("code predicate too deep")
    ev = lambda x: _eval_code_pred(x, v, shift, consts, depth + 1)
    if isinstance(e, ast.Constant):
        return e.value
    if isinstance(e, ast.Name) and e.id == "self":
        return v
    if isinstance(e, ast.Attribute) and isinstance(e.value, ast.Name) and e.value.id == "self":
        if e.attr == "class_" and shift is not None:
            return v >> shift
        if e.attr in consts:
            return consts[e.attr]
    if isinstance(e, ast.BoolOp):
        if isinstance(e.op, ast.And):
            r = True
            for x in e.values:
                r = ev(x)
                if not r:
                    return r
            return r
        r = False
        for x in e.values:
            r = ev(x)
            if r:
                return r
        return r
    if isinstance(e, ast.UnaryOp) and isinstance(e.op, ast.Not):
        return not ev(e.operand)
    if isinstance(e, ast.IfExp):
        return ev(e.body) if ev(e.test) else ev(e.orelse)
    if isinstance(e, ast.Call) and chain(e.func) == "bool" and len(e.args) == 1:
        return bool(ev(e.args[0]))
    if isinstance(e, (ast.Tuple, ast.List, ast.Set)):
        return tuple(ev(x) for x in e.elts)
    if isinstance(e, ast.BinOp):
        l, r = ev(e.left), ev(e.right)
        ops = {ast.RShift: lambda: l >> r, ast.LShift: lambda: l << r, ast.BitAnd: lambda: l & r, ast.BitOr: lambda: l | r,
               ast.Add: lambda: l + r, ast.Sub: lambda: l - r, ast.FloorDiv: lambda: l // r, ast.Mod: lambda: l % r, ast.Mult: lambda: l * r}
        if type(e.op) in ops:
            return ops[type(e.op)]()
    if isinstance(e, ast.Compare):
        left = ev(e.left)
        for op, c in zip(e.ops, e.comparators):
            right = ev(c)
            table = {ast.Lt: lambda: left < right, ast.LtE: lambda: left <= right, ast.Gt: lambda: left > right, ast.GtE: lambda: left >= right,
                     ast.Eq: lambda: left == right, ast.NotEq: lambda: left != right, ast.Is: lambda: left == right, ast.IsNot: lambda: left != right,
                     ast.In: lambda: left in right, ast.NotIn: lambda: left not in right}
            if type(op) not in table:
                raise AnalysisError("code predicate: operator outside the evaluator's vocabulary")
            if not table[type(op)]():
                return False
            left = right
        return True
    raise AnalysisError("code predicate: `%s` is outside the evaluator's vocabulary" % stmt_text(e, 60))


def code_predicates(prog):
    """Extract the meaning of Code.is_request/is_response/is_signalling/is_successful from numbers/codes.py by
    evaluating their (single) return expression for every code 0..255 in the checker's own evaluator.
    Returns {name: IntSet, "class_shift": k}."""
    ci = prog.cls("numbers.codes.Code")
    out = {}
    cf = ci.methods.get("class_")
    if cf is None:
        raise AnalysisError("Code.class_ missing")
    rets = [n for n in walk_no_nested(cf.node) if isinstance(n, ast.Return)]
    shift = None
    if len(rets) == 1:
        try:
            bf = norm.bitfields(rets[0].value)
            if len(bf) == 1 and bf[0][0] == "self" and bf[0][2] is None and bf[0][3] == 0:
                shift = bf[0][1]
        except norm.NormError:
            shift = None
    out["class_shift"] = shift
    consts = {}
    for k, v in ci.attrs.items():
        try:
            val = norm.consteval(v)
        except norm.NormError:
            continue
        if isinstance(val, int):
            consts[k] = val
    for name in ("is_request", "is_response", "is_signalling", "is_successful"):
        if name not in ci.methods:
            raise AnalysisError("Code.%s missing" % name)
        fn = ci.methods[name].node
        rets = [n for n in walk_no_nested(fn) if isinstance(n, ast.Return)]
        if len(rets) != 1 or rets[0].value is None:
            raise AnalysisError("Code.%s is not a single-return predicate" % name)
        out[name] = IntSet(v for v in range(256) if _eval_code_pred(rets[0].value, v, shift, consts))
    return out


RFC_CODE_CLASSES = {  # RFC 7252 section 12.1, RFC 8323 (inclusive bounds within 0..255)
    "is_request": (1, 31),
    "is_response": (64, 191),
    "is_signalling": (224, 255),
    "is_successful": (64, 95),
}


def rfc_class(code):
    if code == 0:
        return "EMPTY"
    if 1 <= code <= 31:
        return "request"
    if 64 <= code <= 191:
        return "response"
    if 224 <= code <= 255:
        return "signalling"
    return "other"


class Interp:
    def __init__(self, fi, env, calls=(), preds=None, consts=None, effect=None, attr_calls=None):
        """env: {chain text: value}; calls: [(pattern, value or callable(bindings, interp))];
        preds: result of code_predicates; consts: {name: value} for module constants
        (CON, NON, ACK, RST, EMPTY ...); effect(call_node, interp) -> label or None."""
        self.fi = fi
        self.env = dict(env)
        self.calls = list(calls)
        self.preds = preds or {}
        self.consts = consts or {}
        self.effect = effect
        self.trace = []
        self.outcome = None

    # -- expression evaluation ------------------------------------------
    def ev(self, e):
        if isinstance(e, ast.Constant):
            return e.value
        c = chain(e)
        if c is not None:
            if c in self.env:
                v = self.env[c]
                if isinstance(v, Unknown):
                    raise v
                return v
            last = c.split(".")[-1]
            if c in self.consts:
                return self.consts[c]
            if isinstance(e, ast.Name):
                if any(k.startswith(c + ".") for k in self.env):
                    return Sym("object:" + c)  # an object we know fields of (e.g. after `message = None` on another path)
                raise Unknown("name %s" % c)
            if last in self.consts and c.split(".")[0] not in self.env and not any(k.startswith(c.split(".")[0] + ".") for k in self.env):
                return self.consts[last]
            # property on a code value
            if isinstance(e, ast.Attribute) and e.attr == "class_":
                v = self.ev(e.value)
                if isinstance(v, int) and self.preds.get("class_shift") is not None:
                    return v >> self.preds["class_shift"]
            raise Unknown("chain %s" % c)
        if isinstance(e, ast.Call):
            for pat, val in self.calls:
                b = match(pat, e)
                if b is not None:
                    return val(b, self) if callable(val) else val
            if isinstance(e.func, ast.Attribute) and e.func.attr in self.preds and not e.args:
                v = self.ev(e.func.value)
                if isinstance(v, int) and not isinstance(v, bool):
                    return v in self.preds[e.func.attr]
            raise Unknown("call %s" % stmt_text(e, 60))
        if isinstance(e, ast.UnaryOp) and isinstance(e.op, ast.Not):
            return not self.ev(e.operand)
        if isinstance(e, ast.BoolOp):
            if isinstance(e.op, ast.And):
                v = True
                for x in e.values:
                    v = self.ev(x)
                    if not v:
                        return v
                return v
            v = False
            for x in e.values:
                v = self.ev(x)
                if v:
                    return v
            return v
        if isinstance(e, ast.Compare) and len(e.ops) == 1:
            op = e.ops[0]
            l = self.ev(e.left)
            if isinstance(op, (ast.In, ast.NotIn)):
                r = e.comparators[0]
                if isinstance(r, (ast.Tuple, ast.List, ast.Set)):
                    vals = [self.ev(x) for x in r.elts]
                    res = any(self._eq(l, v) for v in vals)
                    return res if isinstance(op, ast.In) else not res
                cr = chain(r)
                for pat, val in self.calls:
                    b = match(pat, e)
                    if b is not None:
                        return val(b, self) if callable(val) else val
                raise Unknown("membership in %s" % cr)
            r = self.ev(e.comparators[0])
            if isinstance(op, (ast.Is, ast.Eq)):
                return self._eq(l, r)
            if isinstance(op, (ast.IsNot, ast.NotEq)):
                return not self._eq(l, r)
            if isinstance(l, (int, float)) and isinstance(r, (int, float)):
                return {ast.Lt: l < r, ast.LtE: l <= r, ast.Gt: l > r, ast.GtE: l >= r}[type(op)]
        if isinstance(e, ast.BinOp):
            l, r = self.ev(e.left), self.ev(e.right)
            if isinstance(l, int) and isinstance(r, int):
                ops = {ast.BitAnd: lambda: l & r, ast.BitOr: lambda: l | r, ast.LShift: lambda: l << r if 0 <= r < 64 else None,
                       ast.RShift: lambda: l >> r if 0 <= r < 64 else None, ast.Add: lambda: l + r, ast.Sub: lambda: l - r, ast.Mult: lambda: l * r}
                if type(e.op) in ops:
                    v = ops[type(e.op)]()
                    if v is not None:
                        return v
        raise Unknown("expr %s" % stmt_text(e, 60))

    @staticmethod
    def _eq(a, b):
        for x in (a, b):
            if isinstance(x, tuple) and x and x[0] in ("expr", "elt"):
                raise Unknown("comparison with the unevaluated value %s" % (x[1],))
        if a is None or b is None:
            return a is b
        if isinstance(a, Sym) or isinstance(b, Sym):
            return isinstance(a, Sym) and isinstance(b, Sym) and str(a) == str(b)
        if isinstance(a, bool) or isinstance(b, bool):
            return a is b
        return a == b

    # -- statements -----------------------------------------------------------
    def _assign(self, st):
        tgts = st.targets if isinstance(st, ast.Assign) else [st.target]
        if isinstance(st, ast.AugAssign):
            for t in tgts:
                c = chain(t)
                if c and (c in self.env):
                    self.env[c] = Unknown("augmented %s" % c)
            return
        val = st.value
        for t in tgts:
            if isinstance(t, (ast.Tuple, ast.List)) and isinstance(val, (ast.Tuple, ast.List)) and len(val.elts) == len(t.elts) and all(chain(x) for x in t.elts):
                vals = []
                for v in val.elts:
                    try:
                        vals.append(self.ev(v))
                    except Unknown:
                        vals.append(("expr", stmt_text(v, 60)))
                for x, v in zip(t.elts, vals):
                    self._kill(chain(x))
                    self.env[chain(x)] = v
                continue
            if isinstance(t, (ast.Tuple, ast.List)):
                for x in t.elts:
                    c = chain(x)
                    if c:
                        self._kill(c)
                        self.env[c] = ("elt", stmt_text(val, 60), t.elts.index(x))
                continue
            c = chain(t)
            if c is None:
                continue
            self._kill(c)
            if val is None:
                continue
            # object construction / aliasing
            if isinstance(val, ast.Call) and (chain(val.func) or "").split(".")[-1] == "Message":
                self.env[c] = ("object", stmt_text(val, 50))
                for kw in val.keywords:
                    name = kw.arg.lstrip("_") if kw.arg else None
                    if name in ("mtype", "mid", "code", "token"):
                        try:
                            self.env[c + "." + name] = self.ev(kw.value)
                        except Unknown:
                            self.env[c + "." + name] = ("expr", stmt_text(kw.value, 60))
                for name in ("mtype", "mid", "code"):
                    self.env.setdefault(c + "." + name, None)
                continue
            if isinstance(val, ast.Name) and any(k.startswith(val.id + ".") for k in self.env):
                for k in list(self.env):
                    if k.startswith(val.id + "."):
                        self.env[c + k[len(val.id):]] = self.env[k]
                if val.id in self.env:
                    self.env[c] = self.env[val.id]
                continue
            try:
                self.env[c] = self.ev(val)
            except Unknown:
                self.env[c] = ("expr", stmt_text(val, 60))

    def _kill(self, c):
        for k in list(self.env):
            if k == c or k.startswith(c + "."):
                del self.env[k]

    def run(self, max_steps=400):
        cfg = cfg_of(self.fi)
        n = cfg.entry
        seen = set()
        steps = 0
        while True:
            steps += 1
            if steps > max_steps:
                raise AnalysisError("abstract run of %s does not terminate" % self.fi.short)
            node = cfg.nodes[n]
            if node.kind == "exit":
                self.outcome = self.outcome or "return"
                return
            if node.kind == "rexit":
                return
            if node.kind in ("stmt", "return", "with", "raise"):
                st = node.ast
                if self.effect is not None and st is not None:
                    for c in walk_no_nested(st):
                        if isinstance(c, ast.Call):
                            lab = self.effect(c, self)
                            if lab is not None:
                                self.trace.append(lab)
                if node.kind == "raise":
                    self.outcome = "raise:" + (stmt_text(st.exc, 60) if st.exc is not None else "")
                    return
                if isinstance(st, (ast.Assign, ast.AnnAssign, ast.AugAssign)):
                    self._assign(st)
                if node.kind == "return":
                    self.outcome = "return"
                    return
                if isinstance(st, ast.Match):
                    pass
            if node.kind == "test":
                if self.effect is not None:
                    for c in walk_no_nested(node.ast):
                        if isinstance(c, ast.Call):
                            lab = self.effect(c, self)
                            if lab is not None:
                                self.trace.append(lab)
                try:
                    v = self.ev(node.ast)
                except Unknown as u:
                    raise AnalysisError("abstract evaluation of `%s` in %s: %s is outside the evaluator's vocabulary" % (stmt_text(node.ast, 70), self.fi.short, u))
                want = "T" if v else "F"
                nxt = [d for d, lab in cfg.succ[n] if lab == want]
                if not nxt:
                    raise AnalysisError("no %s edge at `%s`" % (want, stmt_text(node.ast)))
                n = nxt[0]
                continue
            if node.kind == "for":
                raise AnalysisError("loops are outside the abstract evaluator (%s)" % self.fi.short)
            nxt = [d for d, lab in cfg.succ[n] if lab in ("next", "T", "F", "back")]
            if not nxt:
                self.outcome = self.outcome or "end"
                return
            if n in seen and cfg.nodes[n].kind == "join":
                raise AnalysisError("loops are outside the abstract evaluator (%s)" % self.fi.short)
            seen.add(n)
            n = nxt[0]
