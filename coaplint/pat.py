"""Structural AST patterns.

A pattern is Python source with metavariables:
    $x      any expression (or, in attribute position, any attribute name);
            the same metavariable must match structurally equal subtrees
    $_      anonymous wildcard
    $*xs    remaining positional arguments / elements
    $**kw   remaining keyword arguments
Patterns are compared on the syntax tree (contexts and positions ignored), so
formatting, comments and parenthesisation do not matter.
"""

import ast
import re
from .model import walk_no_nested

_MV = re.compile(r"\$(\*\*|\*)?([A-Za-z_][A-Za-z_0-9]*)")


def _prep(src):
    def repl(m):
        stars, name = m.group(1) or "", m.group(2)
        return stars + "MV__" + name
    return _MV.sub(repl, src)


_cache = {}


def compile_expr(src):
    if src not in _cache:
        _cache[src] = ast.parse(_prep(src), mode="eval").body
    return _cache[src]


def compile_stmt(src):
    key = ("stmt", src)
    if key not in _cache:
        body = ast.parse(_prep(src)).body
        assert len(body) == 1, src
        _cache[key] = body[0]
    return _cache[key]


def dump(node):
    """Position- and context-free dump for structural equality."""
    if isinstance(node, ast.AST):
        if isinstance(node, (ast.Load, ast.Store, ast.Del)):
            return ""
        fields = []
        for f, v in ast.iter_fields(node):
            if f in ("ctx", "type_comment", "kind"):
                continue
            fields.append("%s=%s" % (f, dump(v)))
        return "%s(%s)" % (type(node).__name__, ",".join(fields))
    if isinstance(node, list):
        return "[" + ",".join(dump(x) for x in node) + "]"
    return repr(node)


def same(a, b):
    return dump(a) == dump(b)


class Bindings(dict):
    """A match result; truthy even when the pattern had no metavariables."""

    def __bool__(self):
        return True


def _mvname(n):
    if isinstance(n, ast.Name) and n.id.startswith("MV__"):
        return n.id[4:]
    return None


def _bind(b, name, val):
    if name == "_":
        return True
    if name in b:
        old = b[name]
        if isinstance(old, str) or isinstance(val, str):
            return old == val
        if isinstance(old, list) or isinstance(val, list):
            return dump(old) == dump(val)
        return same(old, val)
    b[name] = val
    return True


_MIRROR = {ast.Eq: ast.Eq, ast.NotEq: ast.NotEq, ast.Is: ast.Is, ast.IsNot: ast.IsNot,
           ast.Lt: ast.Gt, ast.Gt: ast.Lt, ast.LtE: ast.GtE, ast.GtE: ast.LtE}


def _match_seq(pats, nodes, b):
    # positional sequence with optional trailing $*rest
    if pats and isinstance(pats[-1], ast.Starred) and _mvname(pats[-1].value):
        fixed = pats[:-1]
        if len(nodes) < len(fixed):
            return False
        for p, n in zip(fixed, nodes):
            if not _match(p, n, b):
                return False
        return _bind(b, _mvname(pats[-1].value), list(nodes[len(fixed):]))
    if len(pats) != len(nodes):
        return False
    return all(_match(p, n, b) for p, n in zip(pats, nodes))


def _match(p, n, b):
    mv = _mvname(p)
    if mv is not None:
        if not isinstance(n, ast.AST):
            return False
        return _bind(b, mv, n)
    if isinstance(p, ast.AST):
        if isinstance(p, ast.Attribute) and p.attr.startswith("MV__"):
            if not isinstance(n, ast.Attribute):
                return False
            return _match(p.value, n.value, b) and _bind(b, p.attr[4:], n.attr)
        if type(p) is not type(n):
            return False
        if isinstance(p, ast.Compare) and len(p.ops) == 1 and len(n.ops) == 1:
            saved = dict(b)
            if type(p.ops[0]) is type(n.ops[0]) and _match(p.left, n.left, b) and _match(p.comparators[0], n.comparators[0], b):
                return True
            b.clear()
            b.update(saved)
            mir = _MIRROR.get(type(n.ops[0]))
            if mir is not None and mir is type(p.ops[0]) and _match(p.left, n.comparators[0], b) and _match(p.comparators[0], n.left, b):
                return True
            b.clear()
            b.update(saved)
            return False
        if isinstance(p, ast.Call):
            if not _match(p.func, n.func, b):
                return False
            if not _match_seq(p.args, n.args, b):
                return False
            pk = {k.arg: k.value for k in p.keywords if k.arg is not None}
            rest = [k for k in p.keywords if k.arg is None]
            nk = {k.arg: k.value for k in n.keywords if k.arg is not None}
            nrest = [k for k in n.keywords if k.arg is None]
            for name, pv in pk.items():
                if name not in nk or not _match(pv, nk[name], b):
                    return False
            extra = [k for k in n.keywords if k.arg is not None and k.arg not in pk]
            if rest and _mvname(rest[0].value):
                return _bind(b, _mvname(rest[0].value), extra + nrest)
            return not extra and not nrest
        if isinstance(p, (ast.Tuple, ast.List, ast.Set)):
            return _match_seq(p.elts, n.elts, b)
        for f, pv in ast.iter_fields(p):
            if f in ("ctx", "type_comment", "kind", "lineno", "col_offset", "end_lineno", "end_col_offset"):
                continue
            nv = getattr(n, f, None)
            if not _match(pv, nv, b):
                return False
        return True
    if isinstance(p, list):
        if not isinstance(n, list):
            return False
        return _match_seq(p, n, b)
    return p == n and type(p) is type(n)


def match(pattern, node, bindings=None):
    """Match `pattern` (source text or compiled AST) against node.
    Returns a bindings dict or None."""
    if isinstance(pattern, str):
        pattern = compile_expr(pattern) if not _is_stmt_src(pattern) else compile_stmt(pattern)
    b = Bindings(bindings or {})
    if isinstance(node, ast.Expr) and not isinstance(pattern, ast.stmt):
        node = node.value
    if isinstance(pattern, ast.Expr) and not isinstance(node, ast.stmt):
        pattern = pattern.value
    return b if _match(pattern, node, b) else None


_STMT_RE = re.compile(r"^\s*(return\b|raise\b|del\b|assert\b|pass\b|break\b|continue\b|await\b.*=|[^=!<>]*[^=!<>+\-*/|&]=[^=])")


_stmt_cache = {}


def _is_stmt_src(src):
    r = _stmt_cache.get(src)
    if r is None:
        s = _prep(src)
        try:
            ast.parse(s, mode="eval")
            r = False
        except SyntaxError:
            r = True
        _stmt_cache[src] = r
    return r


def find(pattern, root, nested=False, bindings=None):
    """Yield (node, bindings) for all sub-nodes of root matching pattern."""
    if isinstance(pattern, str):
        pattern = compile_stmt(pattern) if _is_stmt_src(pattern) else compile_expr(pattern)
    it = ast.walk(root) if nested else walk_no_nested(root)
    for n in it:
        if isinstance(pattern, ast.stmt):
            if not isinstance(n, ast.stmt):
                continue
        elif not isinstance(n, ast.expr):
            continue
        b = match(pattern, n, bindings)
        if b is not None:
            yield n, b


def find_one(pattern, root, nested=False, bindings=None):
    r = list(find(pattern, root, nested, bindings))
    return r[0] if r else (None, None)


def chain(node):
    """'a.b.c' for Name/Attribute chains, else None."""
    parts = []
    while isinstance(node, ast.Attribute):
        parts.append(node.attr)
        node = node.value
    if isinstance(node, ast.Name):
        parts.append(node.id)
        return ".".join(reversed(parts))
    return None


def calls_in(root, nested=False):
    it = ast.walk(root) if nested else walk_no_nested(root)
    return [n for n in it if isinstance(n, ast.Call)]


def call_name(call):
    """Dotted text of the callee or None."""
    return chain(call.func)


def contains(root, node):
    return any(n is node for n in ast.walk(root))


def names_in(root):
    return {n.id for n in ast.walk(root) if isinstance(n, ast.Name)}
