"""E8: path model -- enumerate the normal-flow paths of a function's CFG under a
decision per *atomic condition* (and a value per declared finite-domain
*subject* such as `message.mtype`), so that rules can be phrased over "what
happens on every path on which C holds" instead of over the syntactic shape of
the `if` statements.  Early returns, nested ifs, `and`/`or`/`not`, De Morgan
forms, `x in (A, B)` against `x == A or x == B`, `!=` against `not ==`, mirrored
operands and chained comparisons all give the same set of (decisions, events)
pairs.

Atoms are the test expressions of the CFG (which already decomposes boolean
operators) after normalisation (`atom_key`).  A test that re-reads state which
may have changed since the last evaluation (a name assigned more than once,
any test inside a loop) is keyed per occurrence.

Nothing is executed: conditions are uninterpreted booleans, except for tests on
a declared subject, which are decided by the subject's value.
"""

import ast

from .model import AnalysisError
from .cfg import cfg_of
from .pat import match, dump

_FLIP = {ast.Lt: ast.Gt, ast.Gt: ast.Lt, ast.LtE: ast.GtE, ast.GtE: ast.LtE}


def _txt(e):
    return " ".join(ast.unparse(e).split())


def atom_key(e):
    """-> (key text, polarity).  polarity False: the atom is the negation of e."""
    pol = True
    while isinstance(e, ast.UnaryOp) and isinstance(e.op, ast.Not):
        e = e.operand
        pol = not pol
    if isinstance(e, ast.Compare) and len(e.ops) == 1:
        op, l, r = e.ops[0], e.left, e.comparators[0]
        if isinstance(op, (ast.NotEq, ast.IsNot)):
            op = ast.Eq()
            pol = not pol
        elif isinstance(op, ast.Is):
            op = ast.Eq()
        elif isinstance(op, ast.NotIn):
            op = ast.In()
            pol = not pol
        if isinstance(op, ast.Eq):
            a, b = sorted([_txt(l), _txt(r)])
            return "%s == %s" % (a, b), pol
        if isinstance(op, ast.In):
            if isinstance(r, (ast.Tuple, ast.List, ast.Set)):
                return "%s in {%s}" % (_txt(l), ", ".join(sorted(_txt(x) for x in r.elts))), pol
            return "%s in %s" % (_txt(l), _txt(r)), pol
        # orderings: canonical `a < b`
        if isinstance(op, ast.Gt):  # l > r == r < l
            return "%s < %s" % (_txt(r), _txt(l)), pol
        if isinstance(op, ast.Lt):
            return "%s < %s" % (_txt(l), _txt(r)), pol
        if isinstance(op, ast.GtE):  # l >= r == not (l < r)
            return "%s < %s" % (_txt(l), _txt(r)), not pol
        if isinstance(op, ast.LtE):  # l <= r == not (r < l)
            return "%s < %s" % (_txt(r), _txt(l)), not pol
    return _txt(e), pol


class Path:
    __slots__ = ("nodes", "decisions", "values", "end")

    def __init__(self, nodes, decisions, values, end):
        self.nodes = nodes  # node ids in order
        self.decisions = decisions  # atom key -> bool
        self.values = values  # subject text -> value text
        self.end = end  # "return" | "raise" | "fall" | "cut"

    def has(self, nid):
        return nid in self.nodes

    def index(self, nid):
        return self.nodes.index(nid)


class PathModel:
    def __init__(self, fi, subjects=None, include_exc=False, loop_bound=1, max_paths=20000, aliases=None):
        """subjects: {subject text (e.g. 'message.mtype'): [value texts, e.g. 'CON', 'NON', 'ACK', 'RST', 'None']}
        aliases: {text: subject text} further spellings of a subject (e.g. a hoisted local)."""
        self.fi = fi
        self.cfg = cfg_of(fi)
        self.subjects = dict(subjects or {})
        self.aliases = dict(aliases or {})
        self.include_exc = include_exc
        self.loop_bound = loop_bound
        self.max_paths = max_paths
        self._multi = self._multi_assigned()
        self._inloop = self._loop_nodes()
        self._paths = None

    # -- preparation -------------------------------------------------------
    def _multi_assigned(self):
        fn = self.fi.node
        cnt = {}
        for n in ast.walk(fn):
            if isinstance(n, ast.Name) and isinstance(n.ctx, (ast.Store, ast.Del)):
                cnt[n.id] = cnt.get(n.id, 0) + 1
            elif isinstance(n, ast.Attribute) and isinstance(n.ctx, (ast.Store, ast.Del)):
                t = _txt(n)
                cnt[t] = cnt.get(t, 0) + 1
        params = set()
        if not isinstance(fn, ast.Lambda):
            a = fn.args
            params = {x.arg for x in a.args + a.kwonlyargs + a.posonlyargs}
        out = set()
        for k, v in cnt.items():
            if v > 1 or k in params or "." in k:
                out.add(k)  # re-assigned local, assigned parameter, or stored attribute chain
        return out

    def _loop_nodes(self):
        c = self.cfg
        out = set()
        for n in c.nodes:
            if n.kind in ("test", "for") and n.id in c.reach({n.id}, skip_labels=("exc",)):
                out.add(n.id)
        return out

    def _subject_of(self, e):
        t = _txt(e)
        t = self.aliases.get(t, t)
        return t if t in self.subjects else None

    def _subject_test(self, e):
        """(subject, set of values for which e is true) or None"""
        pol = True
        while isinstance(e, ast.UnaryOp) and isinstance(e.op, ast.Not):
            e = e.operand
            pol = not pol
        if not (isinstance(e, ast.Compare) and len(e.ops) == 1):
            s = self._subject_of(e)
            if s is not None:  # truthiness of the subject: all enum members truthy, None falsy
                vals = {v for v in self.subjects[s] if v != "None"}
                return s, (vals if pol else set(self.subjects[s]) - vals)
            return None
        op, l, r = e.ops[0], e.left, e.comparators[0]
        s = self._subject_of(l)
        other = r
        if s is None and isinstance(op, (ast.Eq, ast.NotEq, ast.Is, ast.IsNot)):
            s = self._subject_of(r)
            other = l
        if s is None:
            return None
        uni = self.subjects[s]
        if isinstance(op, (ast.Eq, ast.Is, ast.NotEq, ast.IsNot)):
            v = _txt(other).split(".")[-1]
            if v not in uni:
                return None
            vals = {v}
            if isinstance(op, (ast.NotEq, ast.IsNot)):
                vals = set(uni) - vals
        elif isinstance(op, (ast.In, ast.NotIn)) and isinstance(other, (ast.Tuple, ast.List, ast.Set)):
            vs = [_txt(x).split(".")[-1] for x in other.elts]
            if any(v not in uni for v in vs):
                return None
            vals = set(vs)
            if isinstance(op, ast.NotIn):
                vals = set(uni) - vals
        else:
            return None
        return s, (vals if pol else set(uni) - vals)

    def key_of(self, node):
        """decision key of a test node"""
        k, pol = atom_key(node.ast)
        volatile = node.id in self._inloop
        if not volatile:
            for n in ast.walk(node.ast):
                if isinstance(n, ast.Name) and n.id in self._multi:
                    volatile = True
                    break
                if isinstance(n, ast.Attribute) and _txt(n) in self._multi:
                    volatile = True
                    break
        if volatile:
            k = "%s @%d" % (k, node.id)
        return k, pol

    # -- enumeration -------------------------------------------------------------
    def paths(self):
        if self._paths is None:
            self._paths = list(self._enumerate())
        return self._paths

    def _enumerate(self):
        c = self.cfg
        out = []
        # iterative DFS; state = (node, path tuple, decisions, values, visit counts)
        stack = [(c.entry, (), {}, {}, {})]
        while stack:
            nid, path, dec, vals, cnt = stack.pop()
            path = path + (nid,)
            if nid == c.exit:
                out.append(Path(list(path), dec, vals, "return"))
                if len(out) > self.max_paths:
                    raise AnalysisError("path model of %s: more than %d paths" % (self.fi.short, self.max_paths))
                continue
            if nid == c.rexit:
                out.append(Path(list(path), dec, vals, "raise"))
                continue
            node = c.nodes[nid]
            succ = c.succ[nid]
            if not self.include_exc:
                succ = [(d, l) for d, l in succ if l != "exc" or node.kind == "raise"]
            if node.kind == "test":
                st = self._subject_test(node.ast)
                if st is not None:
                    s, true_vals = st
                    if s in vals:
                        want = "T" if vals[s] in true_vals else "F"
                        for d, l in succ:
                            if l == want:
                                stack.append((d, path, dec, vals, cnt))
                    else:
                        for v in self.subjects[s]:
                            want = "T" if v in true_vals else "F"
                            nv = dict(vals)
                            nv[s] = v
                            for d, l in succ:
                                if l == want:
                                    stack.append((d, path, dec, nv, cnt))
                    continue
                k, pol = self.key_of(node)
                if k in dec:
                    want = "T" if dec[k] == pol else "F"
                    for d, l in succ:
                        if l == want:
                            stack.append((d, path, dec, vals, cnt))
                else:
                    for d, l in succ:
                        if l in ("T", "F"):
                            nd = dict(dec)
                            nd[k] = (l == "T") == pol
                            stack.append((d, path, nd, vals, cnt))
                        else:
                            stack.append((d, path, dec, vals, cnt))
                continue
            if node.kind == "for" or (node.kind == "join" and node.label == "while"):
                n = cnt.get(nid, 0)
                if n > self.loop_bound:
                    # cut: only the exit edge of a for; a while head continues into its test (which is per-occurrence)
                    if node.kind == "for":
                        for d, l in succ:
                            if l == "F":
                                stack.append((d, path, dec, vals, cnt))
                        continue
                    out.append(Path(list(path), dec, vals, "cut"))
                    continue
                nc = dict(cnt)
                nc[nid] = n + 1
                if node.kind == "for" and n >= self.loop_bound:
                    for d, l in succ:
                        if l == "F":
                            stack.append((d, path, dec, vals, nc))
                    continue
                for d, l in succ:
                    stack.append((d, path, dec, vals, nc))
                continue
            if not succ:
                out.append(Path(list(path), dec, vals, "raise" if node.kind == "raise" else "fall"))
                continue
            for d, l in succ:
                stack.append((d, path, dec, vals, cnt))
        return out

    # -- queries ---------------------------------------------------------------------
    def truth(self, e, path):
        """three-valued truth of expression e under the decisions of path:
        True / False / None (not decided on that path)."""
        if isinstance(e, ast.BoolOp):
            vals = [self.truth(v, path) for v in e.values]
            if isinstance(e.op, ast.And):
                if any(v is False for v in vals):
                    return False
                return True if all(v is True for v in vals) else None
            if any(v is True for v in vals):
                return True
            return False if all(v is False for v in vals) else None
        if isinstance(e, ast.UnaryOp) and isinstance(e.op, ast.Not):
            v = self.truth(e.operand, path)
            return None if v is None else (not v)
        if isinstance(e, ast.Constant) and isinstance(e.value, bool):
            return e.value
        if isinstance(e, ast.IfExp):
            t = self.truth(e.test, path)
            if t is None:
                a, b = self.truth(e.body, path), self.truth(e.orelse, path)
                return a if a == b else None
            return self.truth(e.body if t else e.orelse, path)
        if isinstance(e, ast.Compare) and len(e.ops) > 1:
            left = e.left
            res = True
            for op, right in zip(e.ops, e.comparators):
                v = self.truth(ast.Compare(left=left, ops=[op], comparators=[right]), path)
                if v is False:
                    return False
                if v is None:
                    res = None
                left = right
            return res
        st = self._subject_test(e)
        if st is not None:
            s, tv = st
            if s in path.values:
                return path.values[s] in tv
            return None
        k, pol = atom_key(e)
        if k in path.decisions:
            return path.decisions[k] == pol
        # per-occurrence keys: decided consistently at every occurrence?
        seen = {v for kk, v in path.decisions.items() if kk.startswith(k + " @")}
        if len(seen) == 1:
            return seen.pop() == pol
        return None

    def paths_through(self, nid):
        return [p for p in self.paths() if nid in p.nodes]

    def nodes_of(self, astnode):
        return self.cfg.locate(astnode)

    def describe(self, path):
        d = ["%s=%s" % kv for kv in sorted(path.values.items())] + ["%s%s" % ("" if v else "not ", k) for k, v in sorted(path.decisions.items())]
        return ", ".join(d) or "<unconditional>"


def path_model(fi, **kw):
    return PathModel(fi, **kw)
