"""E0 program model: parse every aiocoap/**/*.py from the working tree of /repo,
index modules, classes, functions (incl. nested) by qualified name, resolve
imports and the static class hierarchy.

Nothing in here imports or executes repository code.
"""

import ast
import os

REPO = os.environ.get("COAPLINT_REPO", "/repo")
PKG = "aiocoap"


class AnalysisError(Exception):
    """The analysis cannot be carried out (anchor vanished, unparsable file,
    shape outside a rule's vocabulary).  Exit status 2, never a VIOLATION."""


class AnchorError(AnalysisError):
    pass


# Builtin exception hierarchy (Appendix A.13), child -> parent
BUILTIN_EXC = {
    "BaseException": None,
    "Exception": "BaseException",
    "asyncio.CancelledError": "BaseException",
    "CancelledError": "BaseException",
    "KeyboardInterrupt": "BaseException",
    "GeneratorExit": "BaseException",
    "StopIteration": "Exception",
    "StopAsyncIteration": "Exception",
    "ArithmeticError": "Exception",
    "ZeroDivisionError": "ArithmeticError",
    "OverflowError": "ArithmeticError",
    "AssertionError": "Exception",
    "AttributeError": "Exception",
    "BufferError": "Exception",
    "EOFError": "Exception",
    "ImportError": "Exception",
    "LookupError": "Exception",
    "IndexError": "LookupError",
    "KeyError": "LookupError",
    "MemoryError": "Exception",
    "NameError": "Exception",
    "OSError": "Exception",
    "IOError": "Exception",
    "FileNotFoundError": "OSError",
    "FileExistsError": "OSError",
    "PermissionError": "OSError",
    "IsADirectoryError": "OSError",
    "NotADirectoryError": "OSError",
    "ConnectionError": "OSError",
    "ConnectionResetError": "ConnectionError",
    "ConnectionRefusedError": "ConnectionError",
    "BrokenPipeError": "ConnectionError",
    "InterruptedError": "OSError",
    "TimeoutError": "OSError",
    "socket.gaierror": "OSError",
    "socket.error": "Exception",
    "RuntimeError": "Exception",
    "NotImplementedError": "RuntimeError",
    "RecursionError": "RuntimeError",
    "TypeError": "Exception",
    "ValueError": "Exception",
    "UnicodeError": "ValueError",
    "UnicodeDecodeError": "UnicodeError",
    "UnicodeEncodeError": "UnicodeError",
    "json.JSONDecodeError": "ValueError",
    "struct.error": "Exception",
    "binascii.Error": "ValueError",
    "asyncio.TimeoutError": "Exception",
    "asyncio.InvalidStateError": "Exception",
    "cryptography.exceptions.InvalidTag": "Exception",
    "InvalidTag": "Exception",
    "ipaddress.AddressValueError": "ValueError",
    "Warning": "Exception",
}


class Module:
    def __init__(self, name, path, src, is_pkg):
        self.name = name
        self.path = path
        self.src = src
        self.is_pkg = is_pkg
        self.tree = ast.parse(src, filename=path)
        self.imports = {}  # local name -> qualified target
        self.lines = src.splitlines()


class FuncInfo:
    def __init__(self, qn, node, module, cls, parent):
        self.qn = qn  # fully qualified, e.g. aiocoap.x.C.m or aiocoap.x.f.<locals>.g
        self.node = node
        self.module = module
        self.cls = cls  # ClassInfo or None (only for direct methods)
        self.parent = parent  # enclosing FuncInfo for nested
        self.name = node.name if hasattr(node, "name") else "<lambda>"

    @property
    def short(self):
        return self.qn[len(PKG) + 1 :]

    @property
    def is_async(self):
        return isinstance(self.node, ast.AsyncFunctionDef)

    def loc(self, node=None):
        n = node if node is not None else self.node
        return "%s:%d" % (os.path.relpath(self.module.path, REPO), getattr(n, "lineno", 0))

    def __repr__(self):
        return "<Func %s>" % self.qn


class ClassInfo:
    def __init__(self, qn, node, module):
        self.qn = qn
        self.node = node
        self.module = module
        self.bases = []  # resolved qualified names (or raw text when external)
        self.methods = {}  # name -> FuncInfo
        self.attrs = {}  # class-level simple assignments name -> ast expr
        self.annotations = {}  # class-level annotations name -> ast expr

    def __repr__(self):
        return "<Class %s>" % self.qn


def walk_no_nested(node, include_root=True):
    """ast.walk that does not descend into nested function/class/lambda bodies
    (the root itself is always expanded)."""
    todo = [node]
    first = True
    while todo:
        n = todo.pop()
        if not first and isinstance(
            n, (ast.FunctionDef, ast.AsyncFunctionDef, ast.Lambda, ast.ClassDef)
        ):
            yield n
            continue
        if not first or include_root:
            yield n
        first = False
        todo.extend(reversed(list(ast.iter_child_nodes(n))))


class Program:
    def __init__(self, root=None, overrides=None):
        self.root = root or REPO
        self.overrides = overrides or {}
        self.modules = {}
        self.funcs = {}
        self.classes = {}
        self.parents = {}  # id(node) -> parent node, filled lazily per module
        self._parented = set()
        self.touched = set()  # anchors a rule asked for (reported in evidence)
        self.inlined = []  # report of the helper-expansion pass (coaplint/inline.py)
        self._load()
        if not os.environ.get("COAPLINT_NO_INLINE"):
            from . import inline

            try:
                self.inlined = inline.run(self.modules)
            except RecursionError as e:  # pragma: no cover
                raise AnalysisError("helper expansion failed: %s" % e)
        self._index()

    # ------------------------------------------------------------------
    def _load(self):
        base = os.path.join(self.root, PKG)
        if not os.path.isdir(base):
            raise AnalysisError("package directory %s missing" % base)
        for dirpath, dirnames, filenames in os.walk(base):
            dirnames[:] = sorted(d for d in dirnames if d != "__pycache__")
            for fn in sorted(filenames):
                if not fn.endswith(".py"):
                    continue
                path = os.path.join(dirpath, fn)
                rel = os.path.relpath(path, self.root)
                if rel in self.overrides:
                    src = self.overrides[rel]
                else:
                    with open(path, encoding="utf-8") as f:
                        src = f.read()
                parts = rel[:-3].split(os.sep)
                is_pkg = parts[-1] == "__init__"
                if is_pkg:
                    parts = parts[:-1]
                name = ".".join(parts)
                try:
                    self.modules[name] = Module(name, path, src, is_pkg)
                except SyntaxError as e:
                    raise AnalysisError("cannot parse %s: %s" % (rel, e))
        if len(self.modules) < 70:
            raise AnalysisError(
                "only %d modules found under %s (floor 70)" % (len(self.modules), base)
            )

    def _index(self):
        for m in self.modules.values():
            self._index_imports(m)
        for m in self.modules.values():
            self._index_scope(m, m.tree.body, m.name, None, None)
        for c in self.classes.values():
            c.bases = [self._resolve_base(c, b) for b in c.node.bases]

    def _index_imports(self, m):
        pkgparts = m.name.split(".") if m.is_pkg else m.name.split(".")[:-1]
        for node in ast.walk(m.tree):
            if isinstance(node, ast.Import):
                for a in node.names:
                    if a.asname:
                        m.imports[a.asname] = a.name
                    else:
                        m.imports[a.name.split(".")[0]] = a.name.split(".")[0]
            elif isinstance(node, ast.ImportFrom):
                if node.level:
                    base = pkgparts[: len(pkgparts) - (node.level - 1)]
                    modname = ".".join(base + ([node.module] if node.module else []))
                else:
                    modname = node.module or ""
                for a in node.names:
                    m.imports.setdefault(a.asname or a.name, modname + "." + a.name)

    def _index_scope(self, m, body, prefix, cls, parentfunc):
        for node in body:
            if isinstance(node, (ast.FunctionDef, ast.AsyncFunctionDef)):
                qn = prefix + "." + node.name
                fi = FuncInfo(qn, node, m, cls, parentfunc)
                # property setters etc. share a name: keep first, suffix others
                if qn in self.funcs:
                    k = 2
                    while "%s#%d" % (qn, k) in self.funcs:
                        k += 1
                    fi.qn = "%s#%d" % (qn, k)
                self.funcs[fi.qn] = fi
                if cls is not None and parentfunc is None:
                    cls.methods.setdefault(node.name, fi)
                self._index_nested(m, node, qn, fi)
            elif isinstance(node, ast.ClassDef):
                qn = prefix + "." + node.name
                ci = ClassInfo(qn, node, m)
                self.classes[qn] = ci
                for st in node.body:
                    if isinstance(st, ast.Assign) and len(st.targets) == 1 and isinstance(st.targets[0], ast.Name):
                        ci.attrs[st.targets[0].id] = st.value
                    elif isinstance(st, ast.AnnAssign) and isinstance(st.target, ast.Name):
                        ci.annotations[st.target.id] = st.annotation
                        if st.value is not None:
                            ci.attrs[st.target.id] = st.value
                self._index_scope(m, node.body, qn, ci, None)
            elif isinstance(node, (ast.If, ast.Try, ast.With)):
                # conditional definitions at module/class level
                for sub in ("body", "orelse", "finalbody"):
                    self._index_scope(m, getattr(node, sub, []) or [], prefix, cls, parentfunc)
                for h in getattr(node, "handlers", []) or []:
                    self._index_scope(m, h.body, prefix, cls, parentfunc)

    def _index_nested(self, m, fnode, qn, fi):
        for n in walk_no_nested(fnode, include_root=False):
            if isinstance(n, (ast.FunctionDef, ast.AsyncFunctionDef)):
                q2 = qn + ".<locals>." + n.name
                f2 = FuncInfo(q2, n, m, None, fi)
                if q2 in self.funcs:
                    k = 2
                    while "%s#%d" % (q2, k) in self.funcs:
                        k += 1
                    f2.qn = "%s#%d" % (q2, k)
                self.funcs[f2.qn] = f2
                self._index_nested(m, n, q2, f2)
            elif isinstance(n, ast.ClassDef):
                q2 = qn + ".<locals>." + n.name
                ci = ClassInfo(q2, n, m)
                self.classes[q2] = ci
                self._index_scope(m, n.body, q2, ci, None)

    # ------------------------------------------------------------------
    def resolve_in_module(self, m, dotted):
        """Resolve a dotted name used inside module m to a qualified name."""
        parts = dotted.split(".")
        head = parts[0]
        if head in m.imports:
            q = m.imports[head]
        elif (m.name + "." + head) in self.classes or (m.name + "." + head) in self.funcs:
            q = m.name + "." + head
        else:
            # module-level variable or builtin
            q = head if not self._module_defines(m, head) else m.name + "." + head
        q = ".".join([q] + parts[1:])
        return self.canonical(q)

    def _module_defines(self, m, name):
        for st in m.tree.body:
            if isinstance(st, ast.Assign):
                for t in st.targets:
                    if isinstance(t, ast.Name) and t.id == name:
                        return True
            elif isinstance(st, ast.AnnAssign) and isinstance(st.target, ast.Name) and st.target.id == name:
                return True
        return False

    def canonical(self, q, depth=0):
        """Follow re-exports: aiocoap.Message -> aiocoap.message.Message."""
        if depth > 8:
            return q
        if q in self.classes or q in self.funcs or q in self.modules:
            return q
        parts = q.split(".")
        # find longest module prefix
        for i in range(len(parts) - 1, 0, -1):
            mod = ".".join(parts[:i])
            if mod in self.modules:
                m = self.modules[mod]
                rest = parts[i:]
                if rest[0] in m.imports:
                    tgt = m.imports[rest[0]]
                    nq = ".".join([tgt] + rest[1:])
                    if nq != q:
                        return self.canonical(nq, depth + 1)
                return q
        return q

    def _resolve_base(self, c, bnode):
        try:
            txt = ast.unparse(bnode)
        except Exception:
            return "?"
        if isinstance(bnode, ast.Subscript):  # Generic[T] etc.
            txt = ast.unparse(bnode.value)
        # nested class scope: try sibling classes first
        outer = c.qn.rsplit(".", 1)[0]
        if "." not in txt and (outer + "." + txt) in self.classes:
            return outer + "." + txt
        return self.resolve_in_module(c.module, txt)

    def mro(self, qn):
        """Linearised ancestors (simple DFS order, duplicates removed; the
        package has no diamond whose order matters for our rules)."""
        out = []
        seen = set()

        def rec(q):
            if q in seen:
                return
            seen.add(q)
            out.append(q)
            if q in self.classes:
                for b in self.classes[q].bases:
                    rec(b)
            elif q in BUILTIN_EXC and BUILTIN_EXC[q]:
                rec(BUILTIN_EXC[q])

        rec(qn)
        return out

    def is_subclass(self, a, b):
        return b in self.mro(a)

    def subclasses(self, qn):
        return [c for c in self.classes if qn in self.mro(c)]

    def lookup_method(self, clsqn, name):
        for q in self.mro(clsqn):
            ci = self.classes.get(q)
            if ci and name in ci.methods:
                return ci.methods[name]
        return None

    def class_attr(self, clsqn, name):
        """Class-level attribute expression following the MRO."""
        for q in self.mro(clsqn):
            ci = self.classes.get(q)
            if ci and name in ci.attrs:
                return ci.attrs[name], ci
        return None, None

    # ------------------------------------------------------------------
    def func(self, short):
        qn = short if short.startswith(PKG + ".") else PKG + "." + short
        if qn not in self.funcs:
            raise AnchorError("anchor function %s not found" % qn)
        self.touched.add(qn)
        return self.funcs[qn]

    def cls(self, short):
        qn = short if short.startswith(PKG + ".") else PKG + "." + short
        if qn not in self.classes:
            raise AnchorError("anchor class %s not found" % qn)
        self.touched.add(qn)
        return self.classes[qn]

    def module(self, short):
        qn = short if short.startswith(PKG) else PKG + "." + short
        if qn not in self.modules:
            raise AnchorError("anchor module %s not found" % qn)
        return self.modules[qn]

    def has_func(self, short):
        qn = short if short.startswith(PKG + ".") else PKG + "." + short
        return qn in self.funcs

    def module_const(self, modshort, name):
        m = self.module(modshort)
        found = None
        for st in m.tree.body:
            if isinstance(st, ast.Assign):
                for t in st.targets:
                    if isinstance(t, ast.Name) and t.id == name:
                        found = st.value
            elif isinstance(st, ast.AnnAssign) and isinstance(st.target, ast.Name) and st.target.id == name and st.value is not None:
                found = st.value
        if found is None:
            raise AnchorError("module constant %s.%s not found" % (modshort, name))
        return found

    def parent_map(self, m):
        if m.name not in self._parented:
            for p in ast.walk(m.tree):
                for c in ast.iter_child_nodes(p):
                    self.parents[id(c)] = p
            self._parented.add(m.name)
        return self.parents

    def stats(self):
        ncalls = 0
        nraise = 0
        ntry = 0
        for m in self.modules.values():
            for n in ast.walk(m.tree):
                if isinstance(n, ast.Call):
                    ncalls += 1
                elif isinstance(n, ast.Raise):
                    nraise += 1
                elif isinstance(n, ast.Try):
                    ntry += 1
        return {
            "modules": len(self.modules),
            "functions": len(self.funcs),
            "classes": len(self.classes),
            "call_sites": ncalls,
            "raise_statements": nraise,
            "try_statements": ntry,
        }


def stmt_text(node, limit=160):
    """Normalised one-line text of a construct (used as finding key)."""
    try:
        t = ast.unparse(node)
    except Exception:
        t = type(node).__name__
    t = " ".join(t.split())
    return t if len(t) <= limit else t[: limit - 3] + "..."
