"""Obligation bookkeeping, evidence files, known findings, exit codes."""

import ast
import hashlib
import json
import os
import time

from .model import AnalysisError, stmt_text, PKG

VERIF = os.path.dirname(os.path.dirname(os.path.abspath(__file__)))
EVIDENCE_DIR = os.environ.get("COAPLINT_EVIDENCE_DIR") or os.path.join(VERIF, "evidence")
KNOWN_FILE = os.path.join(VERIF, "known_findings.json")

COMMON_ASSUMPTIONS = [
    "the program analysed is the working tree /repo/aiocoap/**/*.py; no monkey-patching at run time and no application subclasses of the anchored classes",
    "asyncio runs one task at a time: a plain def without await/yield is atomic with respect to other tasks (rules relying on this check it)",
    "assert statements are never accepted as guards",
    "AttributeError/TypeError from ill-typed objects, MemoryError, RecursionError and exceptions from third-party code other than the tabulated ones are not modelled",
    "the verdict concerns the structural clauses listed in coverage.clauses (necessary conditions of the property), not the run-time behaviour as a whole",
]


class Violation:
    def __init__(self, pid, clause, func, construct, msg, loc):
        self.pid = pid
        self.clause = clause
        self.func = func
        self.construct = construct
        self.msg = msg
        self.loc = loc

    def key(self):
        return (self.pid, self.clause, self.func, self.construct)

    def as_dict(self):
        return {
            "property": self.pid,
            "clause": self.clause,
            "function": self.func,
            "construct": self.construct,
            "location": self.loc,
            "message": self.msg,
        }


class Ctx:
    def __init__(self, prog, pid, tier="quick", quiet=False):
        self.prog = prog
        self.pid = pid
        self.tier = tier
        self.quiet = quiet
        self.obligations = []  # dicts
        self.violations = []
        self.notes = []
        self.clause = None
        self.clause_desc = {}
        self.extra = {}

    # -- obligations -----------------------------------------------------
    def ob(self, desc, ok, fi=None, node=None, detail=None, construct=None):
        """Record one obligation.  ok=False is a violation pinned to a construct."""
        func = fi.short if fi is not None else "-"
        loc = fi.loc(node) if fi is not None else "-"
        if construct is None:
            construct = stmt_text(node) if node is not None else desc
        rec = {
            "clause": self.clause,
            "obligation": desc,
            "function": func,
            "location": loc,
            "verdict": "discharged" if ok else "refuted",
        }
        if detail:
            rec["detail"] = detail if isinstance(detail, str) else repr(detail)
        self.obligations.append(rec)
        if not ok:
            self.violations.append(
                Violation(self.pid, self.clause, func, construct, desc + ((": " + rec["detail"]) if detail else ""), loc)
            )
        return ok

    def floor(self, what, n, floor):
        if n < floor:
            raise AnalysisError(
                "%s: %s: %d instance(s) found, hand-confirmed floor is %d (a rule matching too few sites would pass vacuously)"
                % (self.clause, what, n, floor)
            )

    def need(self, cond, what):
        """Shape requirement of the rule itself (not a property obligation)."""
        if not cond:
            raise AnalysisError("%s: %s" % (self.clause, what))

    def note(self, text):
        self.notes.append("%s: %s" % (self.clause, text))


def load_known():
    if not os.path.exists(KNOWN_FILE):
        return []
    with open(KNOWN_FILE) as f:
        return json.load(f).get("findings", [])


def finish(ctx, t0, seed, explanation, rule_text, extra_cov=None, selftest=None):
    """Write evidence, print verdict lines, return exit code."""
    os.makedirs(os.path.join(EVIDENCE_DIR, "violations"), exist_ok=True)
    known = [k for k in load_known() if k.get("property") == ctx.pid]
    known_open = {(k["property"], k["clause"], k["function"], k["construct"]): k for k in known if k.get("status") == "known"}
    reported = []
    known_hit = []
    for v in ctx.violations:
        if v.key() in known_open:
            known_hit.append(v)
        else:
            reported.append(v)
    lines = []
    for v in known_hit:
        lines.append("KNOWN-FINDING: property=%s %s %s %s: %s" % (v.pid, v.clause, v.func, v.construct, known_open[v.key()].get("what", v.msg)))
    seen_paths = set()
    for v in reported:
        h = hashlib.sha1(repr(v.key()).encode()).hexdigest()[:10]
        path = os.path.join(EVIDENCE_DIR, "violations", "%s-%s-%s.json" % (v.pid, v.clause.replace(".", "_"), h))
        with open(path, "w") as f:
            json.dump(v.as_dict(), f, indent=1)
        if path not in seen_paths:
            lines.append("VIOLATION property=%s replay=%s" % (v.pid, path))
            lines.append("  %s %s [%s] %s -- %s" % (v.loc, v.func, v.clause, v.construct, v.msg))
            seen_paths.add(path)
    nob = len(ctx.obligations)
    ndis = sum(1 for o in ctx.obligations if o["verdict"] == "discharged")
    distinct = len({(o["clause"], o["obligation"], o["function"], o["location"]) for o in ctx.obligations})
    clauses = sorted({o["clause"] for o in ctx.obligations})
    samples = []
    seen_clause = set()
    for o in ctx.obligations:
        if o["verdict"] == "refuted" or o["clause"] not in seen_clause:
            samples.append(o)
            seen_clause.add(o["clause"])
    cov = {
        "explanation": explanation,
        "rule": rule_text,
        "obligations": nob,
        "discharged": ndis,
        "evaluations": nob,
        "distinct_nontrivial": distinct,
        "samples": samples[:40],
        "clauses": {c: ctx.clause_desc.get(c, "") for c in clauses},
        "program": ctx.prog.stats(),
        "canonicalisation": {
            "rule": "calls to package functions outside coaplint/baseline_functions.txt are expanded in place; pure single-assignment temporaries are propagated (DESIGN E0b)",
            "inlined_helpers": [r for r in getattr(ctx.prog, "inlined", []) if "helper" in r],
            "copy_propagated_temporaries": sum(r.get("copy_propagated_temporaries", 0) for r in getattr(ctx.prog, "inlined", [])),
        },
        "anchors_resolved": sorted(ctx.prog.touched),
        "functions_with_obligations": sorted({o["function"] for o in ctx.obligations if o["function"] != "-"}),
        "known_findings_printed": [v.as_dict() for v in known_hit],
        "notes": ctx.notes,
        "analysis_errors": list(getattr(ctx, "analysis_errors", [])),
        "checker_cmd": "./check %s --tier %s" % (ctx.pid, ctx.tier),
        "trusted_base": ["CPython ast module", "coaplint engine (/verif/coaplint)", "reference tables transcribed from the RFCs in the rule module"],
    }
    if extra_cov:
        cov.update(extra_cov)
    cov.update(ctx.extra)
    if selftest is not None:
        cov["selftest"] = selftest
    ev = {
        "property_id": ctx.pid,
        "tier": ctx.tier,
        "seed": seed,
        "level": "other",
        "coverage": cov,
        "assumptions": COMMON_ASSUMPTIONS,
        "wall_s": round(time.time() - t0, 3),
        "violations": len(reported),
    }
    with open(os.path.join(EVIDENCE_DIR, "%s.json" % ctx.pid), "w") as f:
        json.dump(ev, f, indent=1, default=str)
    for l in lines:
        print(l)
    if reported:
        return 1
    if getattr(ctx, "analysis_errors", None):
        return 2
    print("OK property=%s tier=%s clauses=%d obligations=%d discharged=%d known_findings=%d wall=%.2fs" % (
        ctx.pid, ctx.tier, len(clauses), nob, ndis, len(known_hit), time.time() - t0))
    return 0
