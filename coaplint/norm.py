"""E4 normal forms (no solver): polynomials over Q with opaque atoms and pow2
atoms, comparisons, boolean DNF, bit-field descriptors, piecewise integer
tables, and a small constant evaluator.
"""

import ast
from fractions import Fraction
from .model import AnalysisError
from .pat import dump, chain


class NormError(AnalysisError):
    pass


# ---------------------------------------------------------------------------
# Polynomials: dict { monomial(tuple of sorted (atom, power)) : Fraction }


class Poly:
    __slots__ = ("t",)

    def __init__(self, terms=None):
        self.t = {k: v for k, v in (terms or {}).items() if v != 0}

    @staticmethod
    def const(c):
        return Poly({(): Fraction(c)})

    @staticmethod
    def atom(a):
        return Poly({((a, 1),): Fraction(1)})

    def __add__(self, o):
        r = dict(self.t)
        for k, v in o.t.items():
            r[k] = r.get(k, 0) + v
        return Poly(r)

    def __neg__(self):
        return Poly({k: -v for k, v in self.t.items()})

    def __sub__(self, o):
        return self + (-o)

    def __mul__(self, o):
        r = {}
        for k1, v1 in self.t.items():
            for k2, v2 in o.t.items():
                m = {}
                for a, p in k1 + k2:
                    m[a] = m.get(a, 0) + p
                m = _merge_pow2(m)
                coef = v1 * v2 * m.pop("__coef__", 1)
                key = tuple(sorted((a, p) for a, p in m.items() if p != 0))
                r[key] = r.get(key, 0) + coef
        return Poly(r)

    def is_const(self):
        return all(k == () for k in self.t)

    def const_value(self):
        if not self.is_const():
            return None
        return self.t.get((), Fraction(0))

    def key(self):
        return tuple(sorted((k, v) for k, v in self.t.items()))

    def __eq__(self, o):
        return isinstance(o, Poly) and self.key() == o.key()

    def __hash__(self):
        return hash(self.key())

    def atoms(self):
        return {a for k in self.t for a, _ in k}

    def __repr__(self):
        if not self.t:
            return "0"
        parts = []
        for k, v in sorted(self.t.items()):
            mon = "*".join(a if p == 1 else "%s^%d" % (a, p) for a, p in k)
            if not mon:
                parts.append(str(v))
            elif v == 1:
                parts.append(mon)
            else:
                parts.append("%s*%s" % (v, mon))
        return " + ".join(parts)


def _merge_pow2(m):
    """Combine pow2(<poly>) atoms inside one monomial: pow2(a)*pow2(b)=pow2(a+b)."""
    p2 = [(a, p) for a, p in m.items() if a.startswith("pow2(")]
    if len(p2) <= 1 and all(p == 1 for _, p in p2):
        return m
    total = Poly()
    for a, p in p2:
        del m[a]
        total = total + _POW2_ARGS[a] * Poly.const(p)
    c, atom = _pow2_atom(total)
    m["__coef__"] = c
    if atom is not None:
        m[atom] = m.get(atom, 0) + 1
    return m


_POW2_ARGS = {}


def _pow2_atom(expo):
    """2**expo as (rational coefficient, atom-or-None) with the constant part
    of the exponent folded into the coefficient."""
    c = expo.t.get((), Fraction(0))
    rest = Poly({k: v for k, v in expo.t.items() if k != ()})
    if c.denominator != 1:
        raise NormError("non-integer constant exponent")
    coef = Fraction(2) ** int(c)
    if not rest.t:
        return coef, None
    name = "pow2(%r)" % (rest,)
    _POW2_ARGS[name] = rest
    return coef, name


def pow2(expo):
    c, a = _pow2_atom(expo)
    return Poly.const(c) * (Poly.atom(a) if a else Poly.const(1))


class Normalizer:
    """Turns expressions into Poly.  `env` maps local names to AST expressions
    (forward substitution); `rename` maps canonical attribute chains to atom
    names; `funcs` lists pure call names kept as atoms (len, min, max...)."""

    def __init__(self, env=None, rename=None, penv=None, chain_env=None):
        self.env = env or {}
        self.rename = rename or {}
        self.penv = penv or {}  # name -> Poly (takes precedence over env)
        self.chain_env = chain_env or {}  # 'self.X' -> AST expr (property inlining)
        self._stack = set()

    def atom_name(self, e):
        c = chain(e)
        if c is not None:
            # alias expansion: a single-assignment local bound to another chain
            head, _, rest = c.partition(".")
            seen = set()
            while rest and head in self.env and head not in seen and head not in self.penv:
                seen.add(head)
                tgt = chain(self.env[head])
                if tgt is None:
                    break
                c = tgt + "." + rest
                head, _, rest = c.partition(".")
            return self.rename.get(c, c)
        txt = " ".join(ast.unparse(e).split())
        return self.rename.get(txt, txt)

    def poly(self, e):
        if isinstance(e, ast.Constant):
            if isinstance(e.value, bool):
                return Poly.const(int(e.value))
            if isinstance(e.value, (int, float)):
                return Poly.const(Fraction(e.value))
            return Poly.atom(repr(e.value))
        if isinstance(e, ast.Name):
            if e.id in self.penv:
                return self.penv[e.id]
            if e.id in self.env and e.id not in self._stack:
                self._stack.add(e.id)
                try:
                    return self.poly(self.env[e.id])
                finally:
                    self._stack.discard(e.id)
            return Poly.atom(self.rename.get(e.id, e.id))
        if isinstance(e, ast.UnaryOp):
            if isinstance(e.op, ast.USub):
                return -self.poly(e.operand)
            if isinstance(e.op, ast.UAdd):
                return self.poly(e.operand)
        if isinstance(e, ast.BinOp):
            if isinstance(e.op, ast.Add):
                return self.poly(e.left) + self.poly(e.right)
            if isinstance(e.op, ast.Sub):
                return self.poly(e.left) - self.poly(e.right)
            if isinstance(e.op, ast.Mult):
                return self.poly(e.left) * self.poly(e.right)
            if isinstance(e.op, ast.Pow):
                base = self.poly(e.left)
                ex = self.poly(e.right)
                bc = base.const_value()
                ec = ex.const_value()
                if bc is not None and ec is not None and ec.denominator == 1 and ec >= 0:
                    return Poly.const(bc ** int(ec))
                if bc == 2:
                    return pow2(ex)
                if ec is not None and ec.denominator == 1 and 0 <= ec <= 4:
                    r = Poly.const(1)
                    for _ in range(int(ec)):
                        r = r * base
                    return r
            if isinstance(e.op, ast.LShift):
                return self.poly(e.left) * pow2(self.poly(e.right))
            if isinstance(e.op, ast.Div):
                d = self.poly(e.right).const_value()
                if d:
                    return self.poly(e.left) * Poly.const(1 / d)
            if isinstance(e.op, ast.FloorDiv):
                # keep as atom over normalised operands
                l, r = self.poly(e.left), self.poly(e.right)
                return Poly.atom("floordiv(%r,%r)" % (l, r))
            if isinstance(e.op, ast.Mod):
                l, r = self.poly(e.left), self.poly(e.right)
                return Poly.atom("mod(%r,%r)" % (l, r))
            if isinstance(e.op, ast.BitAnd):
                l, r = self.poly(e.left), self.poly(e.right)
                a, b = sorted([repr(l), repr(r)])
                return Poly.atom("and(%s,%s)" % (a, b))
            if isinstance(e.op, ast.RShift):
                l, r = self.poly(e.left), self.poly(e.right)
                return Poly.atom("shr(%r,%r)" % (l, r))
        if isinstance(e, ast.Call):
            fn = chain(e.func)
            if fn in ("len", "min", "max", "int", "abs") and not e.keywords:
                args = [repr(self.poly(a)) for a in e.args]
                if fn in ("min", "max"):
                    args = sorted(args)
                return Poly.atom("%s(%s)" % (fn, ",".join(args)))
            return Poly.atom(self.atom_name(e))
        if isinstance(e, ast.Attribute):
            c = chain(e)
            if c is not None and c in self.chain_env and c not in self._stack:
                self._stack.add(c)
                try:
                    return self.poly(self.chain_env[c])
                finally:
                    self._stack.discard(c)
        if isinstance(e, (ast.Attribute, ast.Subscript)):
            return Poly.atom(self.atom_name(e))
        if isinstance(e, ast.IfExp) or isinstance(e, ast.Compare) or isinstance(e, ast.BoolOp):
            return Poly.atom(self.atom_name(e))
        raise NormError("cannot normalise %s" % ast.dump(e)[:80])

    # comparisons --------------------------------------------------------
    def cmp(self, e, integer=True):
        """Normal form of a single comparison `a op b`:
        ('lt', p)  meaning p < 0        ('le', p) meaning p <= 0
        ('eq', p)  /  ('ne', p) with sign-normalised p
        ('is', a, b) / ('isnot', a, b) / ('in', a, b) / ('notin', a, b)
        ('truth', atom).  With integer=True, p <= 0 becomes p-1 < 0."""
        if isinstance(e, ast.Compare) and len(e.ops) == 1:
            op = e.ops[0]
            a, b = e.left, e.comparators[0]
            if isinstance(op, (ast.Lt, ast.Gt, ast.LtE, ast.GtE)):
                pa, pb = self.poly(a), self.poly(b)
                if isinstance(op, ast.Lt):
                    return self._ineq("lt", pa - pb, integer)
                if isinstance(op, ast.Gt):
                    return self._ineq("lt", pb - pa, integer)
                if isinstance(op, ast.LtE):
                    return self._ineq("le", pa - pb, integer)
                return self._ineq("le", pb - pa, integer)
            if isinstance(op, (ast.Eq, ast.NotEq)):
                try:
                    p = self.poly(a) - self.poly(b)
                except NormError:
                    p = None
                if p is not None:
                    return ("eq" if isinstance(op, ast.Eq) else "ne", _signnorm(p))
            names = {ast.Is: "is", ast.IsNot: "isnot", ast.In: "in", ast.NotIn: "notin", ast.Eq: "eq", ast.NotEq: "ne"}
            return (names[type(op)], self.atom_name(a), self.atom_name(b))
        return ("truth", self.atom_name(e))

    def _ineq(self, kind, p, integer):
        if kind == "le" and integer:
            return ("lt", p - Poly.const(1))
        return (kind, p)

    def negate(self, c):
        k = c[0]
        if k == "lt":  # not (p < 0)  <=>  -p <= 0  <=> (int) -p-1 < 0
            return ("lt", -c[1] - Poly.const(1))
        if k == "le":
            return ("lt", -c[1])
        flip = {"eq": "ne", "ne": "eq", "is": "isnot", "isnot": "is", "in": "notin", "notin": "in"}
        if k in flip:
            return (flip[k],) + tuple(c[1:])
        if k == "truth":
            return ("nottruth", c[1])
        if k == "nottruth":
            return ("truth", c[1])
        raise NormError("negate %r" % (c,))

    def dnf(self, e, integer=True):
        """Boolean expression -> frozenset of frozensets of comparison NFs."""
        return frozenset(frozenset(c) for c in self._dnf(e, True, integer))

    def _dnf(self, e, pol, integer):
        if isinstance(e, ast.BoolOp):
            is_and = isinstance(e.op, ast.And)
            if not pol:
                is_and = not is_and
            parts = [self._dnf(v, pol, integer) for v in e.values]
            if is_and:
                res = [[]]
                for p in parts:
                    res = [a + b for a in res for b in p]
                return res
            return [c for p in parts for c in p]
        if isinstance(e, ast.UnaryOp) and isinstance(e.op, ast.Not):
            return self._dnf(e.operand, not pol, integer)
        if isinstance(e, ast.Compare) and len(e.ops) > 1:
            # a < b < c  ->  a<b and b<c
            parts = []
            left = e.left
            for op, right in zip(e.ops, e.comparators):
                parts.append(ast.Compare(left=left, ops=[op], comparators=[right]))
                left = right
            return self._dnf(ast.BoolOp(op=ast.And(), values=parts), pol, integer)
        if isinstance(e, ast.Name) and e.id in self.env and e.id not in self._stack:
            self._stack.add(e.id)
            try:
                return self._dnf(self.env[e.id], pol, integer)
            finally:
                self._stack.discard(e.id)
        c = self.cmp(e, integer)
        if not pol:
            c = self.negate(c)
        return [[c]]


def _signnorm(p):
    if not p.t:
        return p
    first = sorted(p.t.items())[0][1]
    return -p if first < 0 else p


def local_env(fnode, only_single=True):
    """name -> value expr for locals assigned exactly once (plain Assign to a
    Name, outside loops is not required: callers use it in straight regions)."""
    from .model import walk_no_nested
    count = {}
    val = {}
    for n in walk_no_nested(fnode):
        if isinstance(n, ast.Assign):
            for t in n.targets:
                for nm in ast.walk(t):
                    if isinstance(nm, ast.Name):
                        count[nm.id] = count.get(nm.id, 0) + 1
                if isinstance(t, ast.Name):
                    val[t.id] = n.value
        elif isinstance(n, (ast.AugAssign, ast.AnnAssign)):
            t = n.target
            if isinstance(t, ast.Name):
                count[t.id] = count.get(t.id, 0) + (2 if isinstance(n, ast.AugAssign) else 1)
                if isinstance(n, ast.AnnAssign) and n.value is not None:
                    val[t.id] = n.value
        elif isinstance(n, (ast.For, ast.AsyncFor)):
            for nm in ast.walk(n.target):
                if isinstance(nm, ast.Name):
                    count[nm.id] = count.get(nm.id, 0) + 2
        elif isinstance(n, ast.NamedExpr) and isinstance(n.target, ast.Name):
            count[n.target.id] = count.get(n.target.id, 0) + 2
        elif isinstance(n, (ast.With, ast.AsyncWith)):
            for it in n.items:
                if it.optional_vars is not None:
                    for nm in ast.walk(it.optional_vars):
                        if isinstance(nm, ast.Name):
                            count[nm.id] = count.get(nm.id, 0) + 2
    args = set()
    if hasattr(fnode, "args"):
        a = fnode.args
        for x in a.posonlyargs + a.args + a.kwonlyargs:
            args.add(x.arg)
        if a.vararg:
            args.add(a.vararg.arg)
        if a.kwarg:
            args.add(a.kwarg.arg)
    return {k: v for k, v in val.items() if count.get(k) == 1 and k not in args}


# ---------------------------------------------------------------------------
# Bit-field descriptors


def bitfields(e, env=None):
    """Decompose an integer expression built from |, +, <<, >>, & constants
    into a list of (atom_text, src_lo, width, dst_lo) or constants
    ('const', value).  width None = unbounded.  Raises NormError otherwise."""
    env = env or {}

    def rec(x, seen=()):
        if isinstance(x, ast.Name) and x.id in env and x.id not in seen:
            return rec(env[x.id], seen + (x.id,))
        if isinstance(x, ast.Constant) and isinstance(x.value, int):
            return [("const", int(x.value))]
        if isinstance(x, ast.BinOp):
            if isinstance(x.op, (ast.BitOr, ast.Add)):
                return rec(x.left, seen) + rec(x.right, seen)
            if isinstance(x.op, ast.LShift):
                k = _cint(x.right)
                return [_shift(f, k) for f in rec(x.left, seen)]
            if isinstance(x.op, ast.RShift):
                k = _cint(x.right)
                return [_shift(f, -k) for f in rec(x.left, seen)]
            if isinstance(x.op, ast.BitAnd):
                m = _cint_opt(x.right)
                inner = x.left
                if m is None:
                    m = _cint_opt(x.left)
                    inner = x.right
                if m is None:
                    raise NormError("mask not constant")
                return [_mask(f, m) for f in rec(inner, seen)]
            if isinstance(x.op, ast.Mult):
                k = _cint_opt(x.right)
                inner = x.left
                if k is None:
                    k = _cint_opt(x.left)
                    inner = x.right
                if k is not None and k > 0 and k & (k - 1) == 0:
                    return [_shift(f, k.bit_length() - 1) for f in rec(inner, seen)]
        if isinstance(x, ast.Call) and chain(x.func) in ("int", "bool") and len(x.args) == 1:
            f = rec(x.args[0], seen)
            if chain(x.func) == "bool":
                return [_bool_field(f)]
            return f
        txt = " ".join(ast.unparse(x).split())
        return [(txt, 0, None, 0)]

    return [f for f in rec(e) if f != ("const", 0)]


def _bool_field(f):
    if len(f) == 1 and f[0][0] != "const":
        a, lo, w, d = f[0]
        return (a, lo, 1, d)
    raise NormError("bool() of composite")


def _cint(x):
    v = _cint_opt(x)
    if v is None:
        raise NormError("shift amount not constant: %s" % ast.unparse(x))
    return v


def _cint_opt(x):
    try:
        v = consteval(x)
    except NormError:
        return None
    return v if isinstance(v, int) and not isinstance(v, bool) else None


def _shift(f, k):
    if f[0] == "const":
        return ("const", f[1] << k if k >= 0 else f[1] >> -k)
    a, slo, w, dlo = f
    nd = dlo + k
    if nd < 0:
        # bits shifted out at the bottom
        cut = -nd
        slo += cut
        if w is not None:
            w = max(0, w - cut)
        nd = 0
    return (a, slo, w, nd)


def _mask(f, m):
    if f[0] == "const":
        return ("const", f[1] & m)
    a, slo, w, dlo = f
    if m == 0:
        return ("const", 0)
    # m must be a contiguous run of ones
    lo = (m & -m).bit_length() - 1
    run = m >> lo
    if run & (run + 1) != 0:
        raise NormError("non-contiguous mask %#x" % m)
    hi = lo + run.bit_length()  # exclusive
    # field occupies [dlo, dlo+w) in the value
    f_lo, f_hi = dlo, (dlo + w if w is not None else None)
    n_lo = max(f_lo, lo)
    n_hi = hi if f_hi is None else min(f_hi, hi)
    if n_hi <= n_lo:
        return ("const", 0)
    return (a, slo + (n_lo - f_lo), n_hi - n_lo, n_lo)


# ---------------------------------------------------------------------------
# Constant evaluation (checker's own evaluator over a restricted grammar)

import string as _string

_CONST_NAMES = {
    "string.ascii_letters": _string.ascii_letters,
    "string.digits": _string.digits,
    "string.ascii_lowercase": _string.ascii_lowercase,
    "string.ascii_uppercase": _string.ascii_uppercase,
    "True": True,
    "False": False,
    "None": None,
}


def consteval(e, env=None):
    env = env or {}
    if isinstance(e, ast.Constant):
        return e.value
    if isinstance(e, (ast.Name, ast.Attribute)):
        c = chain(e)
        if c in env:
            v = env[c]
            return consteval(v, env) if isinstance(v, ast.AST) else v
        if c in _CONST_NAMES:
            return _CONST_NAMES[c]
        raise NormError("not a constant: %s" % c)
    if isinstance(e, ast.UnaryOp):
        v = consteval(e.operand, env)
        if isinstance(e.op, ast.USub):
            return -v
        if isinstance(e.op, ast.UAdd):
            return +v
        if isinstance(e.op, ast.Invert):
            return ~v
        if isinstance(e.op, ast.Not):
            return not v
    if isinstance(e, ast.BinOp):
        l, r = consteval(e.left, env), consteval(e.right, env)
        ops = {
            ast.Add: lambda: l + r, ast.Sub: lambda: l - r, ast.Mult: lambda: l * r,
            ast.Pow: lambda: l ** r if abs(r) < 200 else _bad(), ast.LShift: lambda: l << r if r < 200 else _bad(),
            ast.RShift: lambda: l >> r, ast.BitOr: lambda: l | r, ast.BitAnd: lambda: l & r,
            ast.BitXor: lambda: l ^ r, ast.FloorDiv: lambda: l // r, ast.Div: lambda: l / r, ast.Mod: lambda: l % r,
        }
        if type(e.op) in ops:
            try:
                return ops[type(e.op)]()
            except (TypeError, ZeroDivisionError) as ex:
                raise NormError(str(ex))
    if isinstance(e, (ast.Tuple, ast.List)):
        vals = [consteval(x, env) for x in e.elts]
        return tuple(vals) if isinstance(e, ast.Tuple) else vals
    if isinstance(e, ast.Set):
        return set(consteval(x, env) for x in e.elts)
    if isinstance(e, ast.Call):
        fn = chain(e.func)
        if fn == "set" and len(e.args) <= 1:
            return set(consteval(e.args[0], env)) if e.args else set()
        if fn == "frozenset" and len(e.args) <= 1:
            return frozenset(consteval(e.args[0], env)) if e.args else frozenset()
        if fn in ("len",) and len(e.args) == 1:
            return len(consteval(e.args[0], env))
        if isinstance(e.func, ast.Attribute) and e.func.attr == "join" and len(e.args) == 1:
            sep = consteval(e.func.value, env)
            arg = e.args[0]
            if isinstance(arg, (ast.GeneratorExp, ast.ListComp)) and len(arg.generators) == 1:
                g = arg.generators[0]
                if isinstance(g.target, ast.Name):
                    seq = consteval(g.iter, env)
                    out = []
                    for item in seq:
                        env2 = dict(env)
                        env2[g.target.id] = item
                        if all(consteval(c, env2) for c in g.ifs):
                            out.append(consteval(arg.elt, env2))
                    return sep.join(out)
            return sep.join(consteval(arg, env))
        if isinstance(e.func, ast.Attribute) and e.func.attr == "replace" and len(e.args) == 2:
            return consteval(e.func.value, env).replace(consteval(e.args[0], env), consteval(e.args[1], env))
    if isinstance(e, ast.Compare) and len(e.ops) == 1:
        l, r = consteval(e.left, env), consteval(e.comparators[0], env)
        op = e.ops[0]
        table = {ast.Eq: lambda: l == r, ast.NotEq: lambda: l != r, ast.In: lambda: l in r, ast.NotIn: lambda: l not in r,
                 ast.Lt: lambda: l < r, ast.LtE: lambda: l <= r, ast.Gt: lambda: l > r, ast.GtE: lambda: l >= r}
        if type(op) in table:
            return table[type(op)]()
    if isinstance(e, ast.BoolOp):
        vals = [consteval(v, env) for v in e.values]
        return all(vals) if isinstance(e.op, ast.And) else any(vals)
    raise NormError("consteval: unsupported %s" % type(e).__name__)


def _bad():
    raise NormError("exponent too large")


# ---------------------------------------------------------------------------
# Interval algebra for piecewise tables over one integer variable

INF = float("inf")


def interval_of(conj, var):
    """conj: iterable of comparison NFs ('lt', poly) over atom `var` only.
    Returns (lo, hi) inclusive integer bounds, or None if something else is
    in there."""
    lo, hi = -INF, INF
    for c in conj:
        if c[0] not in ("lt", "eq"):
            return None
        p = c[1]
        coef = p.t.get(((var, 1),), Fraction(0))
        k = p.t.get((), Fraction(0))
        if set(p.t) - {((var, 1),), ()} or coef == 0:
            return None
        if c[0] == "eq":
            v = -k / coef
            lo, hi = max(lo, v), min(hi, v)
            continue
        # coef*var + k < 0
        bound = -k / coef
        if coef > 0:  # var < bound
            b = bound - 1 if bound.denominator == 1 else Fraction(bound.__floor__())
            hi = min(hi, b)
        else:  # var > bound
            b = bound + 1 if bound.denominator == 1 else Fraction(bound.__floor__() + 1)
            lo = max(lo, b)
    return (lo, hi)
