"""Command line driver: ./check Cnn [--tier quick|thorough] [--explain FILE] [--jobs N]"""

import importlib
import json
import os
import sys
import time
import traceback

from .model import Program, AnalysisError
from .report import Ctx, finish


def run_rules(R, prog, tier, quiet=True):
    ctx = Ctx(prog, R.pid, tier, quiet)
    clauses = list(R.clauses) + (list(R.thorough_clauses) if tier == "thorough" else [])
    ctx.analysis_errors = []
    for cid, desc, fn in clauses:
        ctx.clause = cid
        ctx.clause_desc[cid] = desc
        try:
            fn(ctx)
        except AnalysisError as e:
            # fail closed, but keep what the other clauses pinned down
            ctx.analysis_errors.append("%s: %s" % (cid, e))
        except RecursionError:
            raise
        except Exception:
            ctx.analysis_errors.append("%s: internal error in rule: %s" % (cid, traceback.format_exc(limit=6)))
    return ctx


def _seed_worker(args):
    modname, idx, root = args
    try:
        mod = importlib.import_module(modname)
        R = mod.R
        s = R.seeds[idx]
        path = os.path.join(root, s.file)
        with open(path, encoding="utf-8") as f:
            src = f.read()
        if src.count(s.old) != 1:
            return (idx, "skipped", "anchor text occurs %d times" % src.count(s.old))
        new = src.replace(s.old, s.new)
        try:
            compile(new, s.file, "exec")
        except SyntaxError as e:
            return (idx, "skipped", "variant does not compile: %s" % e)
        prog = Program(root, overrides={s.file: new})
        ctx = run_rules(R, prog, "quick")
        keys = [v.key() for v in ctx.violations]
        if not keys and ctx.analysis_errors:
            return (idx, "analysis-error", "; ".join(ctx.analysis_errors))
        return (idx, "ran", keys)
    except Exception:
        return (idx, "crash", traceback.format_exc())


def selftest(R, modname, base_ctx, root, jobs):
    from concurrent.futures import ProcessPoolExecutor
    base_keys = {v.key() for v in base_ctx.violations}
    base_clauses = {v.clause for v in base_ctx.violations}
    results = []
    seed_order = list(range(len(R.seeds)))
    with ProcessPoolExecutor(max_workers=jobs) as ex:
        outs = list(ex.map(_seed_worker, [(modname, i, root) for i in seed_order]))
    summary = {"seeds": len(R.seeds), "detected": 0, "skipped": 0, "masked": 0, "missed": [], "blocked": [], "details": []}
    for idx, status, payload in outs:
        s = R.seeds[idx]
        rec = {"clause": s.clause, "file": s.file, "fault": "%s -> %s" % (" ".join(s.old.split())[:70], " ".join(s.new.split())[:70]), "note": s.note}
        if status == "skipped":
            summary["skipped"] += 1
            rec["result"] = "skipped: " + payload
        elif status == "analysis-error":
            summary["blocked"].append(rec["fault"])
            rec["result"] = "analysis-error: " + payload
        elif status == "crash":
            raise AnalysisError("self-test crashed on seed %d: %s" % (idx, payload))
        else:
            new = [k for k in payload if tuple(k) not in base_keys]
            hit = [k for k in new if k[1] == s.clause or k[1].startswith(s.clause)]
            if s.clause in base_clauses:
                summary["masked"] += 1
                rec["result"] = "masked: the clause is already violated on the analysed tree"
            elif hit:
                summary["detected"] += 1
                rec["result"] = "detected: %s %s" % (hit[0][2], hit[0][3][:80])
            elif new:
                summary["detected"] += 1
                rec["result"] = "detected in other clause %s: %s" % (new[0][1], new[0][3][:80])
            else:
                summary["missed"].append("%s: %s" % (s.clause, rec["fault"]))
                rec["result"] = "MISSED"
        summary["details"].append(rec)
    return summary


def main(argv=None):
    argv = list(sys.argv[1:] if argv is None else argv)
    t0 = time.time()
    if not argv:
        print("usage: check Cnn [--tier quick|thorough] [--explain FILE] [--jobs N]")
        return 2
    pid = argv[0].upper()
    tier = os.environ.get("VERIF_TIER", "quick")
    jobs = 16
    explain = None
    i = 1
    while i < len(argv):
        if argv[i] == "--tier":
            tier = argv[i + 1]; i += 2
        elif argv[i] == "--jobs":
            jobs = int(argv[i + 1]); i += 2
        elif argv[i] == "--explain":
            explain = argv[i + 1]; i += 2
        else:
            i += 1
    if tier not in ("quick", "thorough"):
        tier = "quick"
    try:
        seed = int(os.environ.get("VERIF_SEED", "0"))
    except ValueError:
        seed = 0
    modname = "coaplint.rules.%s" % pid.lower()
    try:
        try:
            mod = importlib.import_module(modname)
        except ModuleNotFoundError:
            print("ANALYSIS-ERROR property=%s no rule module" % pid)
            return 2
        R = mod.R
        from .model import REPO
        prog = Program(REPO)
        ctx = run_rules(R, prog, tier)
        st = None
        if tier == "thorough" and R.seeds and not ctx.analysis_errors:
            st = selftest(R, modname, ctx, REPO, jobs)
            if st["missed"]:
                raise AnalysisError("sensitivity self-test: %d seeded fault(s) not detected: %s" % (len(st["missed"]), "; ".join(st["missed"])))
        if explain:
            with open(explain) as f:
                want = json.load(f)
            for v in ctx.violations:
                if v.as_dict().get("construct") == want.get("construct") and v.clause == want.get("clause"):
                    print(json.dumps(v.as_dict(), indent=1))
        rc = finish(ctx, t0, seed, R.explanation, R.rule_text, selftest=st)
        if ctx.analysis_errors:
            for e in ctx.analysis_errors:
                print("ANALYSIS-ERROR property=%s %s" % (pid, e))
            if rc == 0:
                return 2
        return rc
    except AnalysisError as e:
        print("ANALYSIS-ERROR property=%s %s" % (pid, e))
        return 2
    except Exception:
        tb = traceback.format_exc()
        print("ANALYSIS-ERROR property=%s internal error in the checker:\n%s" % (pid, tb))
        return 2


if __name__ == "__main__":
    sys.exit(main())
