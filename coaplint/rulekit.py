"""Helpers shared by the rule modules."""

import ast

from .model import AnalysisError, AnchorError, walk_no_nested, stmt_text
from .pat import match, find, find_one, same, dump, chain, calls_in, call_name, contains, names_in
from .cfg import cfg_of
from . import norm


class Seed:
    """A seeded fault for the sensitivity self-test: replace `old` (must occur
    exactly once in `file`) by `new`; the rules must then report a violation
    in `clause`."""

    def __init__(self, clause, file, old, new, note=""):
        self.clause = clause
        self.file = file
        self.old = old
        self.new = new
        self.note = note


class Rules:
    def __init__(self, pid, explanation, rule_text):
        self.pid = pid
        self.explanation = explanation
        self.rule_text = rule_text
        self.clauses = []
        self.thorough_clauses = []
        self.seeds = []

    def clause(self, cid, desc, tier="quick"):
        def deco(fn):
            (self.clauses if tier == "quick" else self.thorough_clauses).append((cid, desc, fn))
            return fn
        return deco

    def seed(self, clause, file, old, new, note=""):
        self.seeds.append(Seed(clause, file, old, new, note))


# ---------------------------------------------------------------------------
# generic structural helpers


def is_plain_sync(fi):
    """plain def without await / yield: atomic in the single-threaded loop."""
    if isinstance(fi.node, ast.AsyncFunctionDef):
        return False
    for n in walk_no_nested(fi.node):
        if isinstance(n, (ast.Await, ast.Yield, ast.YieldFrom)):
            return False
    return True


def is_log_call(call):
    c = call_name(call) or ""
    parts = c.split(".")
    return (
        (len(parts) >= 2 and parts[-2] in ("log", "_alglog", "logger", "logging") )
        or c in ("warnings.warn", "print")
    )


def guard_exprs(cfg, nid):
    """[(expr, polarity)] of branch conditions dominating node nid."""
    return [(e, pol) for e, pol, _ in cfg.guards(nid)]


def guarded_by(cfg, nid, pattern, polarity=True, bindings=None):
    """Is node nid dominated by a branch on which `pattern` has `polarity`?
    Also accepts the negated spelling (`x is not None` for `x is None` False,
    `a != b` for `a == b` False, `not in` for `in` False)."""
    for e, pol in guard_exprs(cfg, nid):
        b = match(pattern, e, bindings)
        if b is not None and pol == polarity:
            return True
        ne = _negated(e)
        if ne is not None:
            b = match(pattern, ne, bindings)
            if b is not None and pol == (not polarity):
                return True
    return False


def _negated(e):
    """Syntactic negation of a single comparison, or None."""
    if isinstance(e, ast.Compare) and len(e.ops) == 1:
        flip = {ast.Is: ast.IsNot, ast.IsNot: ast.Is, ast.Eq: ast.NotEq, ast.NotEq: ast.Eq,
                ast.In: ast.NotIn, ast.NotIn: ast.In, ast.Lt: ast.GtE, ast.GtE: ast.Lt, ast.Gt: ast.LtE, ast.LtE: ast.Gt}
        t = type(e.ops[0])
        if t in flip:
            return ast.Compare(left=e.left, ops=[flip[t]()], comparators=e.comparators)
    return None


def cmp_guard_nf(cfg, nid, normalizer):
    """Set of comparison normal forms known to hold at node nid."""
    facts = set()
    for e, pol in guard_exprs(cfg, nid):
        try:
            c = normalizer.cmp(e)
        except norm.NormError:
            continue
        facts.add(c if pol else normalizer.negate(c))
    return facts


def assigned_value(fnode, name):
    """The value expression of the only plain assignment `name = value` in the function, else None.
    NOTE: flow-insensitive -- other kinds of writes to the name (tuple targets, augmented assignments, loop
    targets) are not considered; use `writes_to_name` / `value_at` where that matters."""
    vals = []
    for n in walk_no_nested(fnode):
        if isinstance(n, ast.Assign):
            for t in n.targets:
                if isinstance(t, ast.Name) and t.id == name:
                    vals.append(n.value)
    return vals[0] if len(vals) == 1 else None


def resolve_local(fnode, e, depth=3):
    """Follow `name` -> its unique assigned value (a few levels)."""
    while depth and isinstance(e, ast.Name):
        v = assigned_value(fnode, e.id)
        if v is None:
            break
        e = v
        depth -= 1
    return e


def walk_with_lambdas(node):
    """walk_no_nested, but lambda bodies are entered: a lambda is not an indexed function of its own, what it
    does belongs to the function that creates it (nested defs and classes are indexed separately)."""
    todo = [node]
    first = True
    while todo:
        n = todo.pop()
        if not first and isinstance(n, (ast.FunctionDef, ast.AsyncFunctionDef, ast.ClassDef)):
            yield n
            continue
        yield n
        first = False
        todo.extend(reversed(list(ast.iter_child_nodes(n))))


def stores_to(root, attr_chain, nested=True):
    """All nodes that write `self.<field>`-like chain: assignments, augmented
    assignments, subscript stores, del, and mutating method calls -- directly or through a local alias of
    the field (`x = self.f`) or of one of its elements (`x = self.f[k]`, `x = self.f.get(k)`, either arm of a
    conditional expression)."""
    MUT = {"pop", "append", "remove", "add", "update", "setdefault", "insert", "clear", "popitem", "extend", "discard", "popleft", "appendleft", "__setitem__", "__delitem__"}
    out = []
    aliases = set()
    counts = {}
    walker = (lambda: ast.walk(root)) if nested else (lambda: walk_with_lambdas(root))
    for n in walker():
        if isinstance(n, ast.Assign):
            for t in n.targets:
                if isinstance(t, ast.Name):
                    counts[t.id] = counts.get(t.id, 0) + 1
        elif isinstance(n, ast.NamedExpr) and isinstance(n.target, ast.Name):
            counts[n.target.id] = counts.get(n.target.id, 0) + 1

    def _aliases_field(v):
        if isinstance(v, ast.IfExp):
            return _aliases_field(v.body) or _aliases_field(v.orelse)
        if isinstance(v, ast.BoolOp):
            return any(_aliases_field(x) for x in v.values)
        base = v
        if isinstance(v, ast.Call) and isinstance(v.func, ast.Attribute) and v.func.attr in ("get", "setdefault"):
            base = v.func.value
        while isinstance(base, ast.Subscript):
            base = base.value
        return chain(base) == attr_chain and not isinstance(v, ast.Name)

    for n in walker():
        if isinstance(n, ast.Assign) and len(n.targets) == 1 and isinstance(n.targets[0], ast.Name) and counts.get(n.targets[0].id) == 1:
            if _aliases_field(n.value):
                aliases.add(n.targets[0].id)
        elif isinstance(n, ast.NamedExpr) and isinstance(n.target, ast.Name) and counts.get(n.target.id) == 1:
            if _aliases_field(n.value):
                aliases.add(n.target.id)
    for n in walker():
        if aliases and isinstance(n, ast.Call) and isinstance(n.func, ast.Attribute) and n.func.attr in MUT and isinstance(n.func.value, ast.Name) and n.func.value.id in aliases:
            out.append((n.func.attr, n))
            continue
        if isinstance(n, (ast.Assign, ast.AugAssign, ast.AnnAssign)):
            targets = n.targets if isinstance(n, ast.Assign) else [n.target]
            for t in targets:
                for tt in (t.elts if isinstance(t, (ast.Tuple, ast.List)) else [t]):
                    base = tt
                    kind = "assign"
                    while isinstance(base, ast.Subscript):
                        base = base.value
                        kind = "setitem"
                    if chain(base) == attr_chain or (kind == "setitem" and isinstance(base, ast.Name) and base.id in aliases):
                        if isinstance(n, ast.AnnAssign) and n.value is None:
                            continue
                        out.append((kind, n))
        elif isinstance(n, ast.Delete):
            for t in n.targets:
                base = t
                kind = "del"
                while isinstance(base, ast.Subscript):
                    base = base.value
                    kind = "delitem"
                if chain(base) == attr_chain or (kind == "delitem" and isinstance(base, ast.Name) and base.id in aliases):
                    out.append((kind, n))
        elif isinstance(n, ast.Call) and isinstance(n.func, ast.Attribute) and n.func.attr in MUT:
            base = n.func.value
            while isinstance(base, ast.Subscript):
                base = base.value
            if chain(base) == attr_chain:
                out.append((n.func.attr, n))
        elif isinstance(n, ast.Attribute) and n.attr in MUT and not isinstance(getattr(n, "ctx", None), ast.Store):
            # method value taken without a call: functools.partial(self.f.pop, k)
            if chain(n.value) == attr_chain or (isinstance(n.value, ast.Name) and n.value.id in aliases):
                out.append(("ref:" + n.attr, n))
    # drop 'ref:' duplicates of actual calls
    called = {id(n.func) for k, n in out if isinstance(n, ast.Call)}
    return [(k, n) for k, n in out if not (k.startswith("ref:") and id(n) in called)]


def field_writers(prog, field, modules=None):
    """{function short name: [(kind, node)]} for every function in the package
    (or the given modules) that writes self.<field> / <x>.<field>."""
    res = {}
    for fi in prog.funcs.values():
        if modules is not None and fi.module.name not in modules:
            continue
        hits = []
        for n in walk_no_nested(fi.node):
            pass
        for kind, n in stores_to_any(fi.node, field):
            hits.append((kind, n))
        if hits:
            res[fi.short] = hits
    return res


def stores_to_any(root, field):
    """Like stores_to but for any receiver: <expr>.field"""
    out = []
    recv = set()
    for n in walk_with_lambdas(root):
        if isinstance(n, ast.Attribute) and n.attr == field:
            c = chain(n)
            if c:
                recv.add(c)
    for c in sorted(recv):
        out.extend(stores_to(root, c, nested=False))
    return out


def params(fi, skip_self=True):
    a = fi.node.args
    names = [x.arg for x in a.posonlyargs + a.args]
    if skip_self and names and names[0] in ("self", "cls"):
        names = names[1:]
    return names


def writes_to_name(fnode, name):
    """Statements (Assign/AugAssign/AnnAssign/For/With/NamedExpr) that (re)bind a local name."""
    out = []
    for n in walk_no_nested(fnode):
        if isinstance(n, ast.Assign):
            for t in n.targets:
                if any(isinstance(x, ast.Name) and x.id == name for x in ast.walk(t) if isinstance(getattr(x, "ctx", None), ast.Store)):
                    out.append(n)
        elif isinstance(n, (ast.AugAssign, ast.AnnAssign)):
            if isinstance(n.target, ast.Name) and n.target.id == name and (isinstance(n, ast.AugAssign) or n.value is not None):
                out.append(n)
        elif isinstance(n, (ast.For, ast.AsyncFor)):
            if any(isinstance(x, ast.Name) and x.id == name for x in ast.walk(n.target)):
                out.append(n)
        elif isinstance(n, (ast.With, ast.AsyncWith)):
            for it in n.items:
                if it.optional_vars is not None and any(isinstance(x, ast.Name) and x.id == name for x in ast.walk(it.optional_vars)):
                    out.append(n)
        elif isinstance(n, ast.NamedExpr) and n.target.id == name:
            out.append(n)
        elif isinstance(n, ast.ExceptHandler) and n.name == name:
            out.append(n)
    return out


def value_at(fi, name, at_node, normalizer_factory=None, entry_atom=None):
    """Polynomial value of local `name` at CFG node `at_node`, obtained by
    composing the writes that dominate it (straight-line transformer).  Returns
    None when a non-dominating write can reach the node or a dominating write
    sits in a loop (path dependent)."""
    cfg = cfg_of(fi)
    val = norm.Poly.atom(entry_atom or name)
    writes = []
    for w in writes_to_name(fi.node, name):
        for nid in cfg.locate(w):
            writes.append((nid, w))
    dom = []
    for nid, w in writes:
        if nid == at_node:
            continue
        if cfg.dominates(nid, at_node):
            if nid in cfg.reach({nid}):
                return None
            dom.append((nid, w))
        elif at_node in cfg.reach({nid}):
            return None
    dom.sort(key=lambda x: len(cfg.dominators(x[0])))
    for nid, w in dom:
        N = norm.Normalizer(penv={name: val})
        if isinstance(w, ast.Assign) and len(w.targets) == 1 and isinstance(w.targets[0], ast.Name):
            val = N.poly(w.value)
        elif isinstance(w, ast.AugAssign):
            synth = ast.BinOp(left=ast.Name(id=name, ctx=ast.Load()), op=w.op, right=w.value)
            val = N.poly(synth)
        elif isinstance(w, ast.AnnAssign):
            val = N.poly(w.value)
        else:
            return None
    return val


def mtype_values(guards, subject_pat, universe, resolve=None):
    """Evaluate guards of the forms `S is X`, `S == X`, `S in (X, Y)` and their
    negations over a finite universe of constant names.  Returns (set of
    surviving values, list of guards not about the subject)."""
    alive = set(universe)
    others = []
    for e, pol in guards:
        vals = _subject_set(e, subject_pat, universe)
        if vals is None:
            others.append((e, pol))
            continue
        alive &= vals if pol else (set(universe) - vals)
    return alive, others


def _subject_set(e, subject_pat, universe):
    if not (isinstance(e, ast.Compare) and len(e.ops) == 1):
        return None
    op = e.ops[0]
    rhs = e.comparators[0]
    if match(subject_pat, e.left) is None:
        # mirrored spelling `CON == message.mtype`
        if isinstance(op, (ast.Is, ast.Eq, ast.IsNot, ast.NotEq)) and match(subject_pat, rhs) is not None:
            rhs = e.left
        else:
            return None
    def nm(x):
        c = chain(x)
        return c.split(".")[-1] if c else None
    if isinstance(op, (ast.Is, ast.Eq, ast.IsNot, ast.NotEq)):
        v = nm(rhs)
        if v not in universe:
            return None
        s = {v}
        return s if isinstance(op, (ast.Is, ast.Eq)) else set(universe) - s
    if isinstance(op, (ast.In, ast.NotIn)) and isinstance(rhs, (ast.Tuple, ast.List, ast.Set)):
        vs = {nm(x) for x in rhs.elts}
        if not vs <= set(universe):
            return None
        return vs if isinstance(op, ast.In) else set(universe) - vs
    return None
