#!/venv/bin/python
"""Regenerate MANIFEST.json from the rule modules that exist (run by hand)."""
import importlib, json, os, sys
sys.path.insert(0, os.path.dirname(os.path.abspath(__file__)))
ALL = ["C%02d" % i for i in range(1, 21)]
CLAIMED = sys.argv[1:] or ALL
TECH = {}
checks = []
na = []
for pid in ALL:
    path = "coaplint/rules/%s.py" % pid.lower()
    if pid in CLAIMED and os.path.exists(path):
        mod = importlib.import_module("coaplint.rules.%s" % pid.lower())
        R = mod.R
        clauses = sorted({c for c, _, _ in R.clauses + R.thorough_clauses})
        checks.append({
            "property_id": pid,
            "quick_cmd": "./check %s --tier quick" % pid,
            "thorough_cmd": "./check %s --tier thorough --jobs 16" % pid,
            "evidence_file": "/verif/evidence/%s.json" % pid,
            "replay_cmd_template": "./check %s --explain {path}" % pid,
            "engine": "coaplint",
            "level_claimed": {
                "category": "other",
                "text": "Static analysis of /repo's current syntax trees: all structural clauses %s of %s hold (each a necessary condition of the property: breaking it breaks the behaviour for some input/schedule). It is not a claim that the behaviour holds for all schedules/inputs; DESIGN.md lists per property what is not decided. %s" % (", ".join(clauses), pid, R.explanation),
                "design_ref": "DESIGN.md section 3, %s" % pid,
            },
            "level_note": "Trusted: CPython's ast module, the coaplint engine, the RFC reference tables transcribed into the rule module. Assumes no monkey-patching or application subclasses of the anchored classes, single-threaded asyncio (plain defs are atomic), third-party/stdlib callees behave as tabulated. Thorough tier additionally runs the sensitivity self-test (%d seeded faults must each be reported)." % len(R.seeds),
            "technique": "static analysis (custom AST/CFG analyser, path-sensitive abstract interpretation over finite/symbolic domains, no execution of repository code, no solver): " + R.rule_text,
        })
    else:
        na.append({"property_id": pid, "reason": "check not yet registered (rule module under construction or awaiting a fix: commit in /repo)"})
m = {
    "version": 1,
    "setup_cmd": "/venv/bin/python -m compileall -q /verif/coaplint >/dev/null 2>&1 || true",
    "hooks": {"guard": "AIOCOAP_VERIF", "enable": "none needed: the checks read /repo/aiocoap sources as syntax trees and never import or run them", "baseline_off_cmd": "cd /repo && /venv/bin/python -m pytest -ra -q -p no:cacheprovider --timeout=900 --continue-on-collection-errors", "source_commits": [], "add_only": True},
    "engines": [{"name": "coaplint", "path": "/verif/coaplint", "serves_properties": [c["property_id"] for c in checks], "kind_free_text": "repository-specific static analyser over Python syntax trees (nothing of the repository is imported or run): program model with canonical form (helper expansion against a table of confirmed function names, copy propagation, statement normalisations), call resolution, CFG/dominators, path model over normalised atomic conditions, exception-escape analysis with call-shape specialisation, polynomial/bit-field/piecewise normal forms, finite-domain and path-sensitive abstract interpretation inside the rule modules (rules/_kit_cNN.py), field ownership; no solver"}],
    "checks": checks,
    "notes": "Static analysis only. Exit 0 = all obligations discharged (KNOWN-FINDING lines for listed findings); exit 1 + VIOLATION line = an obligation refuted at a named construct; exit 2 + ANALYSIS-ERROR = the analysis could not be carried out (anchor vanished, shape outside the rule's vocabulary, instance count under its floor).",
    "not_applicable": na,
}
json.dump(m, open("MANIFEST.json", "w"), indent=1)
print("claimed", [c["property_id"] for c in checks])
